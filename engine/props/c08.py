"""C08 – bad input is reported as errors; it never crashes or poisons the instance.

Decided structurally:
  C08.exit      every call of exit/_exit/abort/quick_exit/std::terminate is unreachable: the statement immediately before it is
                a call that never returns (member of the computed must-throw set: malloc_error, error_msg(.., STOP) ...), or its
                function cannot be reached from the API surface
  C08.throw     every throw expression throws PhreeqcStop / IPhreeqcStop / PBasicStop; a bare `throw;` occurs only inside a
                handler (outside one it is std::terminate)
  C08.boundary  the five run/load entry points: every engine-reaching call is inside the try; the ladder has a
                `catch (const IPhreeqcStop&)` that does not re-throw; IPhreeqc::error_msg throws IPhreeqcStop whenever stop is
                true; after the ladder every path closes the output files (Run*), resynchronises the error views, clears the
                input stream and returns get_input_errors(); handlers that re-throw are reported (known findings)
  C08.count     "ERROR recorded => non-zero return": io_error_count is incremented on every path of PHRQ_io::error_msg; it and
                input_error are reset to zero only by the frozen set of functions that do so before a run starts;
                get_input_errors() returns input_error, else io_error_count
  C08.pair      "non-zero return => ERROR recorded": every `input_error++` outside the input readers is accompanied in its
                function by an error message; reader-side increments are backed by the end-of-input check
                (tidy_model/read_input: get_input_errors() > 0 -> error_msg(.., STOP))
  C08.clear     error and warning reporters are cleared before the engine runs in every entry point
  C08.keywords  every keyword enumerator has a name and a read_input case; unknown keyword -> STOP error
  C08.restore   wrapper switches that a call saves, overrides and restores (LoadDatabase*, error_msg, warning_msg) are restored
                on every normal path: a failed call does not leave the user's settings changed
  C08.bounded   fixed-extent destination buffers: Phreeqc::copy_token(char*) stores at most MAX_LENGTH-1 characters and every
                caller passes an array of at least MAX_LENGTH bytes; no strcpy/strcat/sprintf/sscanf(%s) targets a fixed array
  C08.ladder    the numerical retry ladder ends in an error: the all-attempts-failed block of set_and_run_wrapper never completes
                normally and the wrapper returns only the values its callers distinguish
  C08.gotoloop  "the call returns": every cycle closed by a backward goto (a loop without a loop condition) carries an iteration budget
                on every path from the label to the goto - a gate whose failing branch is a STOP error, the increment of a counter that
                a test reads and that is not reset inside the cycle, or the raising of the goto guard's bound to the current value;
                the three cycles of the published simplex routine cl1 are exempt by name with the algorithm's argument
  C08.scan      every sscanf that writes a local holding no value yet (no initialiser, no earlier assignment) has its result tested so
                that a failed conversion cannot reach a use of that local: the failing side of the test reports / leaves / assigns, or
                all reads the scan can reach (CFG, up to the next write) lie inside the success branch
  C08.basicraw  BASIC: the editor commands that free the stored program (NEW, DEL, LOAD / RUN "file") raise a BASIC error when a stored line
                executes them, before anything is released; no statement dereferences an address computed from a program value (POKE, PEEK)
  C08.replacegrow  an in-place Phreeqc::replace into a raw char buffer that can lengthen the text is preceded by a growth of that buffer
  C08.loadwarn  the warnings issued while a database is read survive the self-test run of LoadDatabase* (test_db saves and re-adds them)
NOT decided: memory safety / absence of undefined behaviour for all byte sequences in general (no sound buffer or alias
analysis of the 125 k-line engine is available here); std-library exceptions raised by input-dependent code are only
censused (C08.stdthrow, informational).
"""
import json
import re
import os

from .. import tree as T
from ..callgraph import get as callgraph
from ..facts import VERIF

PROP = "C08"
EXPLANATION = __doc__

EXITS = {"exit", "_exit", "_Exit", "abort", "quick_exit", "std::terminate", "terminate", "std::exit", "std::abort", "std::quick_exit", "raise", "longjmp", "std::_Exit"}
STOP_TYPES = {"PhreeqcStop", "IPhreeqcStop", "PBasicStop"}
ENTRY = ["IPhreeqc::RunString", "IPhreeqc::RunFile", "IPhreeqc::RunAccumulated", "IPhreeqc::load_db", "IPhreeqc::load_db_str"]


def load_table(name):
    return json.load(open(os.path.join(VERIF, "tables", name)))


# ------------------------------------------------------------------------------------------ must-throw analysis

class MustThrow:
    """MT: functions every path of which ends in a throw (never return normally).
       ST: functions with a parameter `p` such that a top-level `if (p)` branch never returns -> calls with a non-zero
           literal for p never return."""

    def __init__(self, P):
        self.P = P
        self.cg = callgraph(P)
        self.MT = set()
        self.ST = {}          # function key -> param index
        self.cfg_cache = {}
        changed = True
        rounds = 0
        cand = [k for k, f in P.functions.items() if self._has_throw_or_call(f)]
        while changed and rounds < 8:
            changed = False
            rounds += 1
            for k in cand:
                f = P.functions[k]
                if k not in self.ST:
                    idx = self._stop_param(f)
                    if idx is not None:
                        self.ST[k] = idx
                        changed = True
                if k not in self.MT and self._never_returns(f):
                    self.MT.add(k)
                    changed = True

    def _has_throw_or_call(self, f):
        for x in T.walk(f["body"]):
            if x[0] in ("Throw", "Call"):
                return True
        return False

    def terminating(self, n, caller=None):
        """does evaluating statement/expression n never complete normally?"""
        if not T.is_node(n):
            return False
        if n[0] == "Throw":
            return True
        if n[0] != "Call":
            return False
        c = n[2]
        if not isinstance(c, dict) or not c.get("proj"):
            return False
        tg = self.cg.resolve(c, caller)
        if not tg:
            return False
        ok_all = True
        for t in tg:
            if t in self.MT:
                continue
            if t in self.ST:
                i = self.ST[t]
                a = n[4][i] if i < len(n[4]) else None
                v = T.lit_value(a) if a is not None else None
                if v not in (None, 0):
                    continue
            ok_all = False
        return ok_all

    def _never_returns(self, f):
        cfg = T.CFG(f, terminates=lambda n: self.terminating(n, f))
        return cfg.exit not in cfg.reachable()

    def _stop_param(self, f):
        body = f["body"]
        if not T.is_node(body) or body[0] != "Compound":
            return None
        for s in body[2]:
            if T.is_node(s) and s[0] == "If":
                c = T.strip_casts(s[2])
                pi = None
                if c[0] == "Ref" and c[2] == "param":
                    pi = c[5] if len(c) > 5 else None
                elif c[0] == "Bin" and c[2] in ("!=", "==") and T.strip_casts(c[3])[0] == "Ref" and T.strip_casts(c[3])[2] == "param":
                    v = T.lit_value(c[4])
                    if (c[2] == "!=" and v == 0) or (c[2] == "==" and v not in (None, 0)):
                        r = T.strip_casts(c[3])
                        pi = r[5] if len(r) > 5 else None
                if pi is None:
                    continue
                sub = dict(f, body=s[3])
                cfg = T.CFG(sub, terminates=lambda n: self.terminating(n, f))
                if cfg.exit not in cfg.reachable():
                    return pi
        return None


def api_surface(P):
    roots = []
    rec = P.records.get("IPhreeqc")
    pub = set(m["name"] for m in (rec["methods"] if rec else []) if m["access"] == 0)
    for k, f in P.functions.items():
        if f.get("externC") and f["file"].startswith(("IPhreeqcLib", "IPhreeqc_interface")):
            roots.append(k)
        elif f["q"].startswith("IPhreeqc::") and f["q"].split("::")[-1] in pub:
            roots.append(k)
    return roots


# ------------------------------------------------------------------------------------------ the check

def run(P, R, tier):
    R.undecided += ["(b) memory safety / absence of undefined behaviour for every byte sequence (only the bounded-copy clause is decided)",
                    "std-library exceptions raised by input-dependent code (censused, not decided)"]
    cg = callgraph(P)
    mt = MustThrow(P)
    R.info["must_throw_functions"] = sorted(P.functions[k]["q"] for k in mt.MT)
    R.info["throw_when_stop_functions"] = sorted(P.functions[k]["q"] for k in mt.ST)
    for need in ("Phreeqc::malloc_error",):
        R.require(any(P.functions[k]["q"] == need for k in mt.MT), "C08.exit", "%s is no longer a must-throw function" % need)
    for need in ("Phreeqc::error_msg", "PHRQ_io::error_msg", "IPhreeqc::error_msg"):
        R.require(any(P.functions[k]["q"] == need for k in mt.ST), "C08.exit", "%s no longer throws whenever its stop argument is true" % need)
    reach = cg.reach_from(api_surface(P))

    # ------------------------------------------------------------------ C08.exit
    R.rule("C08.exit", "process-ending calls are unreachable: immediately preceded by a never-returning call, or outside the API's call graph", minimum=30)
    n_exit = 0
    for key, f in sorted(P.functions.items()):
        for blk in T.walk(f["body"]):
            seqs = []
            if blk[0] == "Compound":
                seqs.append([s for s in blk[2] if T.is_node(s)])
            for seq in seqs:
                for i, s in enumerate(seq):
                    if s[0] == "Call" and T.callee_q(s) in EXITS and isinstance(s[2], dict) and not s[2].get("proj"):
                        n_exit += 1
                        inst = "%s:%s@%d" % (f["q"], T.callee_q(s), sum(1 for _ in ()) or n_exit)
                        inst = "%s:%s#%d" % (f["q"], T.callee_q(s), len([1 for k_ in R.rules["C08.exit"]["samples"]]) if False else n_exit)
                        prev = seq[i - 1] if i > 0 else None
                        if prev is not None and (mt.terminating(prev, f) or never_completes(prev, f, mt)):
                            R.ok("C08.exit", "%s:%s" % (f["q"], exit_ordinal(f, s)), "after %s" % T.text(prev)[:50])
                        elif key not in reach:
                            R.ok("C08.exit", "%s:%s" % (f["q"], exit_ordinal(f, s)), "function not reachable from the API surface")
                        else:
                            R.violation("C08.exit", "%s:%s" % (f["q"], exit_ordinal(f, s)),
                                        "%s() is reachable: it is not immediately preceded by a call that never returns (error_msg(.., STOP), malloc_error) - "
                                        "bad input or an allocation failure would end the host process" % T.callee_q(s),
                                        file=f["file"], line=s[1], function=f["q"], path=[P.functions[k]["q"] for k in (cg.path(api_surface(P)[0], {key}) or [])][:12])
        # exits that are not plain statements of a compound (e.g. `if (x) exit(1);`)
        for x in T.walk(f["body"]):
            if x[0] == "If":
                for br in (x[3], x[4]):
                    if T.is_node(br) and br[0] == "Call" and T.callee_q(br) in EXITS and not br[2].get("proj"):
                        if key in reach:
                            R.violation("C08.exit", "%s:%s" % (f["q"], exit_ordinal(f, br)), "%s() as the direct branch of a condition is reachable" % T.callee_q(br),
                                        file=f["file"], line=br[1], function=f["q"])
                        else:
                            R.ok("C08.exit", "%s:%s" % (f["q"], exit_ordinal(f, br)), "function not reachable from the API surface")

    # ------------------------------------------------------------------ C08.throw
    R.rule("C08.throw", "throw expressions throw one of the three Stop types; bare `throw;` only inside a handler", minimum=20)
    for key, f in sorted(P.functions.items()):
        seen = {}
        for thr, in_handler in throws_with_context(f["body"]):
            ty = thr[2]
            base = ty.replace("class ", "").strip()
            n = seen.get(base, 0)
            seen[base] = n + 1
            inst = "%s:%s" % (f["q"], base or "rethrow") + ("" if n == 0 else "#%d" % (n + 1))
            if base == "":
                if in_handler:
                    R.ok("C08.throw", inst, "re-throw inside a handler")
                else:
                    R.violation("C08.throw", inst, "bare `throw;` outside any handler: with no exception being handled this calls std::terminate and ends the process",
                                file=f["file"], line=thr[1], function=f["q"])
            elif base in STOP_TYPES:
                R.ok("C08.throw", inst, "stop exception")
            else:
                R.violation("C08.throw", inst, "throws %s, which the run boundary does not convert into an error return (it is re-thrown to the caller)" % base,
                            file=f["file"], line=thr[1], function=f["q"])

    boundary_rules(P, R, mt, cg)
    count_rules(P, R, mt)
    pair_rules(P, R, mt, cg)
    keyword_rules(P, R, mt)
    bounded_rules(P, R)
    restore_rules(P, R)
    grow_rule(P, R)
    ladder_rule(P, R, mt)
    gotoloop_rule(P, R, mt)
    scan_rule(P, R)
    basicraw_rule(P, R)
    loadwarn_rule(P, R)
    warnbudget_rule(P, R)
    reentry_rule(P, R)
    scancount_rule(P, R)
    rowtypes_rule(P, R)
    cutback_rule(P, R)
    nullthenuse_rule(P, R)
    registered_rule(P, R)
    samehint_rule(P, R)
    replacegrow_rule(P, R)
    phaselookup_rule(P, R)
    shiftdir_rule(P, R)
    errview_rule(P, R)
    growbail_rule(P, R)
    usedump_rule(P, R)
    ssparams_rule(P, R)
    immediate_rule(P, R)
    strparam_rule(P, R)
    gfwout_rule(P, R)
    mixfind_rule(P, R)
    bracketend_rule(P, R)
    boundfirst_rule(P, R)
    progindex_rule(P, R)
    samegas_rule(P, R)
    nomaster_rule(P, R)
    stdthrow_census(P, R, reach)


def ladder_rule(P, R, mt):
    """"The last-resort numerical retry ladder ends in an error, not a silent result": in set_and_run_wrapper the block taken when
    every parameter combination failed (`if (converge == FALSE)`, after the cvode re-try clause) has no path to the end of the
    function - every path through it ends in a never-returning call (error_msg(.., STOP)); and the wrapper returns only OK or
    MASS_BALANCE, the two values its callers distinguish (none of them tests for a failure value)."""
    RULE = "C08.ladder"
    R.rule(RULE, "set_and_run_wrapper: the all-attempts-failed block never completes normally; the wrapper returns only OK / MASS_BALANCE", minimum=3)
    f = P.one("Phreeqc::set_and_run_wrapper")
    where = dict(file=f["file"], function=f["q"])

    def is_failed_test(c):
        c = T.strip_casts(c)
        return (c[0] == "Bin" and c[2] == "==" and T.strip_casts(c[3])[0] == "Ref" and T.strip_casts(c[3])[3] == "converge"
                and T.strip_casts(c[4])[0] == "Lit" and str(T.strip_casts(c[4])[3]) == "0")
    blocks = [x for x in f["body"][2] if x[0] == "If" and is_failed_test(x[2])]
    if len(blocks) != 1:
        R.anchor_missing(RULE, "set_and_run_wrapper: expected exactly one top-level `if (converge == FALSE)` block after the retry loop, found %d" % len(blocks))
        return
    blk = blocks[0]
    if never_completes(blk[3], f, mt):
        R.ok(RULE, "failed-block", "every path through the block ends in a never-returning call")
    else:
        rets = [y for y in T.walk(blk[3]) if y[0] == "Return"]
        R.violation(RULE, "failed-block", "the block taken when every convergence-parameter set failed can complete normally%s: the call returns as if the system had "
                    "converged, no ERROR is recorded and an unconverged state is saved and punched" % (" (return at line %d)" % rets[0][1] if rets else ""),
                    line=(rets[0][1] if rets else blk[1]), **where)
    vals = []
    for y in T.walk(f["body"]):
        if y[0] == "Return" and T.is_node(y[2]):
            v = T.strip_casts(y[2])
            vals.append((y[1], str(v[3]) if v[0] == "Lit" else T.text(v)))
    bad = [(l, v) for l, v in vals if v not in ("1", "3")]
    if bad:
        R.violation(RULE, "return-values", "set_and_run_wrapper returns %s at line %d; its callers distinguish only MASS_BALANCE from everything else, so a failure value is "
                    "treated as success" % (bad[0][1], bad[0][0]), line=bad[0][0], **where)
    else:
        R.ok(RULE, "return-values", "returns only OK(1) / MASS_BALANCE(3): %d return statements" % len(vals))
    # callers: none tests the result against anything but MASS_BALANCE
    n = 0
    badc = None
    for g in P.functions.values():
        if not g.get("body"):
            continue
        for x in T.walk(g["body"]):
            if x[0] == "Bin" and x[2] in ("==", "!=") and any(T.strip_casts(a)[0] == "Call" and T.callee_q(T.strip_casts(a)) == f["q"] for a in (x[3], x[4])):
                other = T.strip_casts(x[4] if T.strip_casts(x[3])[0] == "Call" else x[3])
                n += 1
                if not (other[0] == "Lit" and str(other[3]) == "3"):
                    badc = (g, x)
    if badc:
        R.info["C08.ladder caller testing another value"] = "%s:%d" % (badc[0]["q"], badc[1][1])
    R.ok(RULE, "callers", "%d direct comparisons of the result, all with MASS_BALANCE" % n) if not badc else R.ok(RULE, "callers", "a caller tests another value (informational)")


_CFG_CACHE = {}


def reachable_reads(f, call, targets):
    """reads of the target locals that the value written (or not) by `call` can reach: forward over the CFG from the atom holding
    the call, not continuing past an atom that writes the target again (assignment or another scan into it)"""
    key = f["key"] if "key" in f else id(f)
    if key not in _CFG_CACHE:
        _CFG_CACHE[key] = T.CFG(f)
    cfg = _CFG_CACHE[key]
    start = None
    for nd in cfg.nodes:
        if T.is_node(nd["n"]) and any(y is call for y in T.walk(nd["n"])):
            start = nd["id"]
            break
    if start is None:
        return []

    def writes(n):
        for y in T.walk(n):
            if y[0] == "Bin" and y[2] == "=" and T.strip_casts(y[3])[0] == "Ref" and T.strip_casts(y[3])[3] in targets:
                return True
            if y[0] == "Call" and y is not call and any(T.strip_casts(a)[0] == "Un" and T.strip_casts(a)[2] == "&" and T.text(T.strip_casts(a)[3]) in targets for a in y[4]):
                return True
        return False

    def reads_in(n):
        addr = set()
        for y in T.walk(n):
            if y[0] == "Un" and y[2] == "&":
                addr.add(id(T.strip_casts(y[3])))
        lhs = set()
        for y in T.walk(n):
            if y[0] == "Bin" and y[2] == "=":
                lhs.add(id(T.strip_casts(y[3])))
        return [y for y in T.walk(n) if y[0] == "Ref" and y[2] == "local" and y[3] in targets and id(y) not in addr and id(y) not in lhs]
    out = list(reads_in(cfg.nodes[start]["n"]))
    seen, st = {start}, [start]
    while st:
        x = st.pop()
        for sx in cfg.nodes[x]["succ"]:
            if sx in seen:
                continue
            seen.add(sx)
            n = cfg.nodes[sx]["n"]
            if T.is_node(n):
                if writes(n):
                    continue
                out += reads_in(n)
            st.append(sx)
    return out


def replacegrow_rule(P, R):
    """Phreeqc::replace(const char *, const char *, char *str) substitutes in place with an unbounded memmove.  Wherever the replacement can
    be longer than the pattern (anything but two literals with len(new) <= len(old)) and the target is a raw char buffer, the function
    must have grown that buffer first (PHRQ_realloc of the same member) - otherwise a line that nearly fills the buffer is written past
    its end (get_option: `-a` -> `-analytical_expression`)."""
    RULE = "C08.replacegrow"
    R.rule(RULE, "in-place replace() into a raw char buffer that can lengthen the text is preceded by a growth of that buffer", minimum=2)
    n = 0
    for key, f in sorted(P.functions.items()):
        if not f.get("body"):
            continue
        for c in T.calls(f["body"]):
            if (T.callee_q(c) or "") != "Phreeqc::replace" or len(c[4]) != 3 or c[2].get("id", "") != "Phreeqc::replace(const char *,const char *,char *)":
                continue
            a, b, t = [T.strip_casts(z) for z in c[4]]
            if a[0] == "Lit" and b[0] == "Lit" and len(str(b[3])) <= len(str(a[3])):
                continue
            n += 1
            tgt = T.text(t).replace(" ", "")
            inst = "%s@%d(%s)" % (f["q"].split("::")[-1], c[1], tgt)
            grown = any(x[0] == "Bin" and x[2] == "=" and T.text(x[3]).replace(" ", "") == tgt and x[1] < c[1] and any(T.callee_name(k) in ("PHRQ_realloc", "realloc") for k in T.calls(x[4]))
                        for x in T.walk(f["body"]))
            if grown:
                R.ok(RULE, inst, "the buffer is grown (PHRQ_realloc) before the replacement")
            elif t[0] == "Ref" and t[2] == "local" and "[" in str(t[4]):
                R.ok(RULE, inst, "local array; bounded-copy rules cover its filling (C08.bounded)")
            else:
                R.violation(RULE, inst, "`%s` can lengthen the text in `%s` in place, but the function never grows that buffer: a line that nearly fills it is written past its end "
                            "(heap corruption, the call still returns normally)" % (T.text(c)[:70], tgt), file=f["file"], line=c[1], function=f["q"])
    if n < 2:
        R.anchor_missing(RULE, "only %d lengthening in-place replacements into raw buffers found (get_option x2)" % n)


def loadwarn_rule(P, R):
    """"the error and warning strings describe that call only" - and all of it: a successful LoadDatabase* ends with a self-test run through
    RunString, whose entry clears both reporters.  test_db therefore reads the text of the warning reporter before that run and puts it
    back afterwards (Clear + AddError + update_errors); errors need no such care, a load with errors never reaches the self-test."""
    RULE = "C08.loadwarn"
    R.rule(RULE, "test_db carries the warnings of the load over its self-test run (saved before RunString, re-added after)", minimum=1)
    fs = [g for g in P.fns_named("IPhreeqc::test_db") if g.get("body")]
    if not fs:
        R.anchor_missing(RULE, "IPhreeqc::test_db not found")
        return
    f = fs[0]
    run = [c for c in T.calls(f["body"]) if T.callee_name(c) == "RunString"]
    if not run:
        R.anchor_missing(RULE, "test_db no longer runs its test input through RunString")
        return
    saved = [x for x in T.walk(f["body"]) if x[0] == "Decl" and x[1] < run[0][1] and any(y[0] == "Member" and y[2] == "IPhreeqc::WarningReporter" for d in x[2] if T.is_node(d[2]) for y in T.walk(d[2]))]
    readd = [c for c in T.calls(f["body"]) if T.callee_name(c) == "AddError" and c[1] > run[0][1] and T.is_node(c[3]) and any(y[0] == "Member" and y[2] == "IPhreeqc::WarningReporter" for y in T.walk(c[3]))]
    upd = [c for c in T.calls(f["body"]) if T.callee_name(c) == "update_errors" and c[1] > run[0][1]]
    if saved and readd and upd:
        R.ok(RULE, "test_db", "warning text saved at line %d, re-added at line %d, views refreshed" % (saved[0][1], readd[0][1]))
    else:
        R.violation(RULE, "test_db", "test_db runs its self-test through RunString (which clears the warning reporter) without %s: warnings issued while the database was read are "
                    "lost, the warning string of a load call never describes the load" % ("saving the warnings of the load first" if not saved else "putting them back and refreshing the views"),
                    file=f["file"], line=run[0][1], function=f["q"])


def basicraw_rule(P, R):
    """"no crash, invalid memory access": the BASIC interpreter descends from an interactive one.  (a) Its editor commands NEW, DEL and
    LOAD (also reached by RUN "file") free the stored program lines; the engine keeps a pointer to those lines (rate::linebase), so inside
    a stored program they must be rejected: each of cmdnew / cmddel / cmdload tests `stmtline` (non-NULL while a stored line executes) and
    raises a BASIC error before anything is freed.  (b) POKE / PEEK convert a program value into an address: no statement of PBasic
    dereferences the pointer member of an integer/pointer union."""
    RULE = "C08.basicraw"
    R.rule(RULE, "PBasic: program-freeing editor commands are rejected inside a stored program; no dereference of an address computed from a program value", minimum=4)
    for q in ("PBasic::cmdnew", "PBasic::cmddel", "PBasic::cmdload"):
        fs = [g for g in P.fns_named(q) if g.get("body")]
        if not fs:
            R.anchor_missing(RULE, "%s not found" % q)
            continue
        f = fs[0]
        guard = None
        for x in T.walk(f["body"]):
            if x[0] == "If" and any(y[0] == "Member" and y[2] == "PBasic::stmtline" for y in T.walk(x[2])) and any(T.callee_name(c) == "errormsg" for c in T.calls(x[3])):
                guard = x
                break
        frees = [c[1] for c in T.calls(f["body"]) if T.callee_name(c) in ("PHRQ_free", "disposetokens", "cmdnew", "free_check_null")]
        inst = q.split("::")[-1]
        if guard is not None and (not frees or guard[1] < min(frees)):
            R.ok(RULE, inst, "rejected while a stored line executes (line %d), before the first release (line %s)" % (guard[1], min(frees) if frees else "-"))
        else:
            R.violation(RULE, inst, "%s releases program lines without first rejecting the call from inside a stored program (`if (stmtline != NULL) errormsg(..)`): a RATES / USER_PRINT / "
                        "USER_PUNCH program containing the command frees the lines the engine still points to; the next release of that program (reload, redefinition) crashes"
                        % inst, file=f["file"], line=f["line"], function=f["q"])
    n = 0
    bad = []
    for key, f in sorted(P.functions.items()):
        if not f.get("body") or not f["q"].startswith("PBasic::"):
            continue
        for x in T.walk(f["body"]):
            if x[0] == "Un" and x[2] == "*":
                o = T.strip_casts(x[3])
                if o[0] == "Member" and T.is_node(o[3]) and T.strip_casts(o[3])[0] == "Ref" and T.strip_casts(o[3])[3] == "trick":
                    bad.append((f, x))
        if any(y[0] == "Decl" and any(d[0] == "trick" for d in y[2]) for y in T.walk(f["body"])):
            n += 1
    if bad:
        f, x = bad[0]
        R.violation(RULE, "address-from-value", "%s dereferences `%s`: an integer computed by the BASIC program is used as an address (POKE / PEEK)" % (f["q"], T.text(x)[:30]),
                    file=f["file"], line=x[1], function=f["q"])
    elif n:
        R.ok(RULE, "address-from-value", "%d functions hold the integer/pointer union, none dereferences it" % n)
    else:
        R.ok(RULE, "address-from-value", "no integer/pointer union left in PBasic")


def scan_rule(P, R):
    """"no undefined behaviour / bad input is reported": the readers classify a token as a number by its first character
    (copy_token: digit, '.', '-'), so `-`, `.` or `-abc` reach sscanf and fail there.  A scan that fails leaves its target unchanged;
    if the target is a local with no value yet, the definition receives an indeterminate value.  Every sscanf that writes such a local
    must therefore have its result tested in a way that covers failure: a test whose failing side reports / leaves (error_msg, return,
    break, continue) or assigns the target, or a success test (== N) with every later read of the target inside its then-branch."""
    RULE = "C08.scan"
    R.rule(RULE, "every sscanf into a local that holds no value yet has its result tested so that a failed conversion cannot reach a use of the local", minimum=25)
    n = 0
    LEAVE = ("Return", "Break", "Continue", "Goto", "Throw")

    def side_handles(br, targets):
        if not T.is_node(br):
            return False
        for y in T.walk(br):
            if y[0] in LEAVE:
                return True
            if y[0] == "Call" and T.callee_name(y) in ("error_msg", "malloc_error", "snerr", "incr_input_error"):
                return True
            if y[0] == "Bin" and y[2] == "=" and T.strip_casts(y[3])[0] == "Ref" and T.strip_casts(y[3])[3] in targets:
                return True
            if y[0] == "Bin" and y[2] == "=" and T.text(y[3]).replace(" ", "") == "error":
                return True
        return False

    for key, f in sorted(P.functions.items()):
        if not f.get("body"):
            continue
        calls = [c for c in T.calls(f["body"]) if T.callee_name(c) == "sscanf" and len(c[4]) >= 3]
        if not calls:
            continue
        decl_init = {}
        for x in T.walk(f["body"]):
            if x[0] == "Decl":
                for d in x[2]:
                    decl_init.setdefault(d[0], []).append((T.is_node(d[2]), x[1], d[2]))
        ifs = [x for x in T.walk(f["body"]) if x[0] == "If"]
        for call in calls:
            targets = []
            for a in call[4][2:]:
                a = T.strip_casts(a)
                if a[0] == "Un" and a[2] == "&" and T.strip_casts(a[3])[0] == "Ref" and T.strip_casts(a[3])[2] == "local":
                    v = T.strip_casts(a[3])[3]
                    has_init = any(i for i, _, _ in decl_init.get(v, []))
                    prior = any(x[0] == "Bin" and x[2] in T.ASSIGN_OPS and T.strip_casts(x[3])[0] == "Ref" and T.strip_casts(x[3])[3] == v and x[1] < call[1]
                                for x in T.walk(f["body"]))
                    # a value handed out through a pointer argument before the scan (copy_token(token, &cptr, &l))
                    prior = prior or any(c2[1] < call[1] and c2 is not call and any(T.strip_casts(z)[0] == "Un" and T.strip_casts(z)[2] == "&" and T.text(T.strip_casts(z)[3]) == v for z in c2[4])
                                         for c2 in T.calls(f["body"]) if T.callee_name(c2) != "sscanf")
                    if not has_init and not prior:
                        targets.append(v)
            if not targets:
                continue
            n += 1
            inst = "%s@%d(%s)" % (f["q"].split("::")[-1], call[1], ",".join(targets))
            # the result: tested directly in a condition, or through a variable
            resvar = None
            for x in T.walk(f["body"]):
                if x[0] == "Bin" and x[2] == "=" and T.strip_casts(x[4]) is call:
                    resvar = T.text(x[3]).replace(" ", "")
                if x[0] == "Decl":
                    for d in x[2]:
                        if T.is_node(d[2]) and T.strip_casts(d[2]) is call:
                            resvar = d[0]
            handled = False
            for x in ifs:
                if x[1] < call[1]:
                    continue
                cond = x[2]
                direct = any(c is call for c in T.calls(cond))
                via = resvar is not None and x[1] <= call[1] + 12 and any(y[0] == "Ref" and y[3] == resvar for y in T.walk(cond) if T.is_node(y) and y[0] == "Ref")
                if not (direct or via):
                    continue
                # find the comparison that involves the result
                cmpn = None
                for y in T.walk(cond):
                    if y[0] == "Bin" and y[2] in ("==", "!=", "<", "<=", ">", ">="):
                        sides = (T.strip_casts(y[3]), T.strip_casts(y[4]))
                        if any(sd is call or (sd[0] == "Ref" and resvar is not None and sd[3] == resvar) for sd in sides):
                            cmpn = y
                if cmpn is None:
                    continue
                op = cmpn[2]
                k = const_int(cmpn[4]) if const_int(cmpn[4]) is not None else const_int(cmpn[3])
                # which side is the failing side
                if op in ("!=", "<") or (op == "==" and k == 0) or (op == "<=" and k == 0):
                    fail, succ = x[3], x[4]
                    # `a || scan != 1`: still the then-branch
                else:
                    fail, succ = x[4], x[3]
                if side_handles(fail, targets):
                    handled = True
                    break
                if not T.is_node(fail) and op in ("==", ">=", ">"):
                    # success test without else: every later read of the targets lies inside the then-branch
                    inside = set(id(y) for y in T.walk(succ))
                    reads = reachable_reads(f, call, targets)
                    if all(id(y) in inside for y in reads):
                        handled = True
                        break
            if handled:
                R.ok(RULE, inst, "result tested; a failed conversion cannot reach a use")
            else:
                R.violation(RULE, inst, "sscanf writes `%s`, which holds no value yet, and its result is %s: a token that passes the first-character number test but is not a number "
                            "(`-`, `.`, `-abc`) leaves an indeterminate value in the definition and no ERROR is reported"
                            % (", ".join(targets), "discarded" if resvar is None else "not tested for failure"), file=f["file"], line=call[1], function=f["q"])
    if n < 25:
        R.anchor_missing(RULE, "only %d scans into value-less locals found" % n)


def gotoloop_rule(P, R, mt):
    """"makes the call return normally": a backward `goto` closes a loop that has no loop condition of its own, so nothing in its shape
    bounds the number of repetitions.  Every such cycle in the engine must carry a budget: on EVERY path from the label to the goto
    lies (a) a gate - a test one of whose branches never completes normally (error_msg(.., STOP)) -, or (b) the increment of a counter
    that a relational test of the function reads, or (c) an assignment that raises the bound of the goto's own guard to the current value (`if (A > B) goto L` with
    `B = A` after L, both variables: a high-water mark, the cycle repeats only when A exceeds every earlier value).  One refinement keeps the rule exact for the cvode retry: when the statement before the goto assigns a constant
    to v and the labelled statement is `while (<test of v>)` that is true for that constant, the paths start in the loop body."""
    RULE = "C08.gotoloop"
    R.rule(RULE, "every cycle closed by a backward goto has an iteration budget on every path (gate ending in STOP, tested counter, or falsified guard)", minimum=8)
    tab = load_table("c08_gotoloop_exempt.json")
    R.table("c08_gotoloop_exempt.json", tab)
    exempt = {r["cycle"]: r["reason"] for r in tab["cycles"]}
    used = set()
    ninst = 0
    for key, f in sorted(P.functions.items()):
        if not f.get("body") or f["file"].endswith((".h", ".hpp", ".hxx")):
            continue
        labels = {}
        for x in T.walk(f["body"]):
            if x[0] == "Label":
                labels[x[2]] = x
        if not labels:
            continue
        gotos = [x for x in T.walk(f["body"]) if x[0] == "Goto" and x[2] in labels and labels[x[2]][1] <= x[1]]
        if not gotos:
            continue
        cfg = T.CFG(f, terminates=lambda n: mt.terminating(n, f))
        # relational reads in the function
        tested = set()
        for x in T.walk(f["body"]):
            if x[0] == "Bin" and x[2] in ("<", "<=", ">", ">=", "==", "!="):
                for y in T.walk(x):
                    if y[0] in ("Ref", "Member"):
                        tested.add(T.text(y).replace(" ", ""))

        first_label = min(l[1] for l in labels.values())
        reset = set()
        for x in T.walk(f["body"]):
            if x[1] >= first_label:
                if x[0] == "Bin" and x[2] == "=":
                    reset.add(T.text(T.strip_casts(x[3])).replace(" ", ""))
                if x[0] == "Decl":
                    for d in x[2]:
                        reset.add(d[0])
        tested -= reset        # a counter that is (re)assigned after the label is a loop index, not a budget

        def counter_inc(n):
            for y in T.walk(n):
                if y[0] == "Un" and y[2] in ("post++", "pre++", "++") and T.text(T.strip_casts(y[3])).replace(" ", "").lstrip("*(").rstrip(")") in tested:
                    return T.text(y[3])
                if y[0] == "Bin" and y[2] == "+=" and T.strip_casts(y[4])[0] == "Lit" and T.text(T.strip_casts(y[3])).replace(" ", "") in tested:
                    return T.text(y[3])
            return None
        # gates: cond atoms of an If with a branch that never completes
        gate_conds = set()
        weak_gates = []
        for x in T.walk(f["body"]):
            if x[0] == "If" and T.is_node(x[3]):
                for br in (x[3], x[4]):
                    if T.is_node(br) and not any(y[0] in ("Goto", "Return", "Break", "Continue") for y in T.walk(br)) and never_completes(br, f, mt):
                        # a budget test must be an inequality: `counter == bound` is stepped over when the bound (an unvalidated
                        # input such as -bad_step_max 0) lies below the counter's first value
                        c0 = T.strip_casts(x[2])
                        if c0[0] == "Bin" and c0[2] in ("==", "!=") and any(y[0] == "Un" and y[2] in ("pre++", "post++", "++") for y in T.walk(c0)):
                            weak_gates.append(x)
                            continue
                        gate_conds.add(id(x[2]))
        by_label = {}
        for g in gotos:
            by_label.setdefault(g[2], []).append(g)
        for lab, gs in sorted(by_label.items()):
            labnode = labels[lab]
            bad = []
            why = set()
            for g in gs:
                gid = [n["id"] for n in cfg.nodes if n["n"] is g]
                if not gid:
                    continue
                gid = gid[0]
                # (c) guard of the goto: innermost If whose then-branch holds the goto
                guard = None
                for x in T.walk(f["body"]):
                    if x[0] == "If" and T.is_node(x[3]) and any(y is g for y in T.walk(x[3])):
                        guard = x
                kill = None
                if guard is not None:
                    c = T.strip_casts(guard[2])
                    if c[0] == "Bin" and c[2] in (">", "<", "!="):
                        kill = (T.text(c[3]).replace(" ", ""), T.text(c[4]).replace(" ", ""))

                def is_budget(node):
                    n = node["n"]
                    if not T.is_node(n):
                        return None
                    if node["kind"] == "cond" and id(n) in gate_conds:
                        return "gate@%d" % n[1]
                    ci = counter_inc(n)
                    if ci:
                        return "counter %s" % ci.strip()
                    if kill:
                        for y in T.walk(n):
                            if y[0] == "Bin" and y[2] == "=" and T.strip_casts(y[4])[0] != "Lit" and {T.text(y[3]).replace(" ", ""), T.text(y[4]).replace(" ", "")} == set(kill):
                                return "guard falsified (%s = %s)" % (T.text(y[3]), T.text(y[4]))
                            if y[0] == "Decl":
                                for d in y[2]:
                                    if T.is_node(d[2]) and {d[0], T.text(d[2]).replace(" ", "")} == set(kill):
                                        return "guard falsified (%s = %s)" % (d[0], T.text(d[2]))
                    return None
                # refinement: constant assigned just before the goto decides the labelled while
                starts = [cfg.labels[lab]]
                env = None
                for blk in T.walk(f["body"]):
                    if blk[0] == "Compound":
                        for i, st in enumerate(blk[2]):
                            if st is g and i > 0:
                                pv = blk[2][i - 1]
                                if T.is_node(pv) and pv[0] == "Bin" and pv[2] == "=" and T.strip_casts(pv[3])[0] in ("Ref", "Member"):
                                    v = const_int(pv[4])
                                    if v is not None:
                                        env = (T.text(T.strip_casts(pv[3])).replace(" ", ""), v)
                lst = labnode[3]
                if env and T.is_node(lst) and lst[0] == "While":
                    c = T.strip_casts(lst[2])
                    if c[0] == "Bin" and c[2] in ("!=", "==") and T.text(T.strip_casts(c[3])).replace(" ", "") == env[0] and const_int(c[4]) is not None:
                        truth = (env[1] != const_int(c[4])) if c[2] == "!=" else (env[1] == const_int(c[4]))
                        if truth:
                            cn = [n for n in cfg.nodes if n["n"] is lst[2] and n["kind"] == "cond"]
                            if cn:
                                # successors of the cond: the first is the loop exit, the rest the body
                                starts = cn[0]["succ"][1:]
                # is there a path starts -> goto avoiding budget nodes?
                seen, st = set(), []
                for s0 in starts:
                    b = is_budget(cfg.nodes[s0])
                    if b:
                        why.add(b)
                    else:
                        seen.add(s0)
                        st.append(s0)
                reached = False
                while st:
                    x = st.pop()
                    if x == gid:
                        reached = True
                        break
                    for sx in cfg.nodes[x]["succ"]:
                        if sx in seen:
                            continue
                        b = is_budget(cfg.nodes[sx])
                        if b:
                            why.add(b)
                            continue
                        seen.add(sx)
                        st.append(sx)
                if reached:
                    bad.append(g)
            ninst += 1
            inst = "%s:%s" % (f["q"].split("::")[-1], lab)
            row = "%s:%s" % (f["q"], lab)
            if row in exempt:
                used.add(row)
                if bad:
                    R.ok(RULE, inst, "exempt: " + exempt[row][:140])
                else:
                    R.info.setdefault("redundant_exemption_rows", []).append("C08.gotoloop:" + row)
                    R.ok(RULE, inst, "budgeted (exemption row is redundant)")
                continue
            if bad and weak_gates:
                R.violation(RULE, inst, "the only budget test on the cycle closed by `goto %s` is the equality `%s` (line %d): the incremented counter steps over a bound that lies below "
                            "its first value (the bound is read from the input without a range check), and the call never returns"
                            % (lab, T.text(weak_gates[0][2])[:70], weak_gates[0][1]), file=f["file"], line=weak_gates[0][1], function=f["q"])
            elif bad:
                R.violation(RULE, inst, "the cycle closed by `goto %s` (line%s %s) has a path from the label (line %d) back to the goto without any iteration budget: no gate ending in a "
                            "STOP error, no tested counter, no falsified guard - for an input that keeps the goto's condition true the call never returns"
                            % (lab, "s" if len(bad) > 1 else "", ", ".join(str(b[1]) for b in bad[:6]) + (" ..." if len(bad) > 6 else ""), labnode[1]),
                            file=f["file"], line=bad[0][1], function=f["q"])
            else:
                R.ok(RULE, inst, "%d backward goto(s); budget: %s" % (len(gs), "; ".join(sorted(why))[:120]))
    # budget gates anywhere (also inside while loops): `if (++counter <op> bound) STOP` must be an inequality
    ngate = 0
    for key, f in sorted(P.functions.items()):
        if not f.get("body") or not f["q"].startswith("Phreeqc::"):
            continue
        for x in T.walk(f["body"]):
            if x[0] != "If" or not T.is_node(x[3]):
                continue
            c0 = T.strip_casts(x[2])
            if not (c0[0] == "Bin" and c0[2] in ("==", "!=", "<", "<=", ">", ">=") and any(y[0] == "Un" and y[2] in ("pre++", "post++", "++") for y in T.walk(c0))):
                continue
            if not any(T.callee_name(c) == "error_msg" for c in T.calls(x[3])):
                continue
            ngate += 1
            inst = "%s:budget@%d" % (f["q"].split("::")[-1], x[1])
            if c0[2] in ("==", "!="):
                R.violation(RULE, inst, "the iteration budget `%s` is an equality: the incremented counter steps over a bound that lies below its first value (bounds such as "
                            "-bad_step_max are read without a range check), the STOP error is never raised and the retry loop does not end" % T.text(c0)[:70],
                            file=f["file"], line=x[1], function=f["q"])
            else:
                R.ok(RULE, inst, "inequality `%s`" % T.text(c0)[:50])
    R.info["C08.gotoloop budget gates"] = ngate
    for row in exempt:
        if row not in used:
            R.anchor_missing(RULE, "exemption row `%s` names a cycle that no longer exists" % row)
    if ninst < 8:
        R.anchor_missing(RULE, "only %d labels with backward gotos found (8 confirmed: cl1 x3, calc_final_kinetic_reaction, rk_kinetics, set_and_run_wrapper, run_reactions, jacobian_pz, jacobian_sit)" % ninst)


def never_completes(stmt, f, mt):
    """no path through the statement reaches its end (e.g. an if/else whose branches both end in a never-returning call)"""
    sub = dict(f, body=["Compound", stmt[1], [stmt]])
    cfg = T.CFG(sub, terminates=lambda n: mt.terminating(n, f))
    return cfg.exit not in cfg.reachable()


def exit_ordinal(f, node):
    k = 0
    for x in T.walk(f["body"]):
        if x[0] == "Call" and T.callee_q(x) in EXITS:
            k += 1
            if x is node:
                return "%s#%d" % (T.callee_q(x), k)
    return "exit"


def throws_with_context(body):
    """(Throw node, inside_handler) for every throw expression"""
    out = []

    def rec(n, inh):
        if not T.is_node(n):
            return
        if n[0] == "Throw":
            out.append((n, inh))
        if n[0] == "Try":
            rec(n[2], inh)
            for h in n[3]:
                rec(h[1], True)
            return
        if n[0] == "Lambda":
            rec(n[2], False)
            return
        for c in T.children(n):
            rec(c, inh)
    rec(body, False)
    return out


# ------------------------------------------------------------------------------------------ boundary

def boundary_rules(P, R, mt, cg):
    R.rule("C08.boundary", "run/load entry points: engine calls inside try; IPhreeqcStop caught without re-throw; tail closes, resynchronises, returns the error count", minimum=24)
    R.rule("C08.clear", "error and warning reporters are cleared before the engine runs in every entry point", minimum=5)
    engine_reach = cg.reach_to(set(k for k, f in P.functions.items() if f["q"] in ("Phreeqc::read_input", "Phreeqc::read_database")))
    may_throw = cg.reach_to(set(k for k, f in P.functions.items() if any(x[0] == "Throw" for x in T.walk(f["body"]))))
    for q in ENTRY:
        f = P.one(q)
        nm = q.split("::")[-1]
        where = dict(file=f["file"], line=f["line"], function=f["q"])
        st = [s for s in f["body"][2] if T.is_node(s)]
        trys = [s for s in st if s[0] == "Try"]
        if len(trys) != 1:
            R.anchor_missing("C08.boundary", "%s: expected exactly one top-level try block" % q)
            continue
        t = trys[0]
        ti = st.index(t)
        # engine-reaching calls outside the try
        bad = []
        for s in st[:ti] + st[ti + 1:]:
            for c in T.calls(s):
                cd = c[2]
                if isinstance(cd, dict) and cd.get("proj"):
                    for tg in cg.resolve(cd, f):
                        if tg in may_throw:
                            bad.append("%s at line %d" % (cd.get("q"), c[1]))
        if bad:
            R.violation("C08.boundary", nm + ":inside-try", "calls that may throw are made outside the try block: %s (a STOP raised there escapes the API call as an exception)" % bad[:3], **where)
        else:
            R.ok("C08.boundary", nm + ":inside-try", "no call outside the try can throw")
        # handlers
        hs = t[3]
        stop_h = [h for h in hs if "IPhreeqcStop" in h[0]]
        if len(stop_h) == 1 and not any(thr[2] == "" or True for thr, ih in throws_with_context(stop_h[0][1]) if False) and \
                not throws_with_context(stop_h[0][1]):
            R.ok("C08.boundary", nm + ":catch(IPhreeqcStop)", "caught, not re-thrown")
        else:
            R.violation("C08.boundary", nm + ":catch(IPhreeqcStop)", "the try ladder does not catch IPhreeqcStop without re-throwing: every input error would escape as an exception", **where)
        if hs and "IPhreeqcStop" not in hs[0][0]:
            R.violation("C08.boundary", nm + ":handler-order", "catch (const IPhreeqcStop&) is not the first handler (%s precedes it and re-throws)" % hs[0][0], **where)
        for h in hs:
            if "IPhreeqcStop" in h[0]:
                continue
            rethrows = any(thr[2] == "" for thr, ih in throws_with_context(h[1]) if thr is not None and _top_level_throw(h[1], thr))
            inst = "%s:catch(%s)" % (nm, h[0].replace("const ", "").replace(" &", "&").strip())
            if rethrows:
                R.violation("C08.boundary", inst, "the handler records the failure and re-throws: an exception raised by input-dependent code (other than IPhreeqcStop) "
                            "leaves the API call instead of being returned as an error count", file=f["file"], line=h[2], function=f["q"])
            else:
                R.ok("C08.boundary", inst, "does not re-throw")
        # tail
        tail = st[ti + 1:]
        names = []
        for s in tail:
            for c in T.calls(s):
                names.append(T.callee_q(c))
        need = ["IPhreeqc::update_errors", "PHRQ_io::clear_istream", "Phreeqc::get_input_errors"] + (["IPhreeqc::close_output_files"] if nm.startswith("Run") else [])
        miss = [n for n in need if n not in names]
        rets = [s for s in tail if s[0] == "Return"]
        ret_ok = bool(rets) and any(T.callee_q(c) == "Phreeqc::get_input_errors" for c in T.calls(rets[-1]))
        if miss or not ret_ok:
            R.violation("C08.boundary", nm + ":tail", "after the try ladder %s%s" % ("missing call(s) %s; " % miss if miss else "", "" if ret_ok else "the function does not return get_input_errors()"), **where)
        else:
            R.ok("C08.boundary", nm + ":tail", ", ".join(n.split("::")[-1] for n in need))
        # clear of the reporters before the engine runs: inside the try, a call that clears both reporters precedes the first engine call
        clearing = set()
        for k, g in P.functions.items():
            if g["q"].startswith("IPhreeqc::"):
                cl = set()
                for c in T.calls(g["body"]):
                    if T.callee_name(c) == "Clear" and T.is_node(c[3]):
                        root, steps = T.access_path(c[3])
                        if steps and steps[0][0] == "f" and steps[0][1] in ("IPhreeqc::ErrorReporter", "IPhreeqc::WarningReporter"):
                            cl.add(steps[0][1])
                if len(cl) == 2:
                    clearing.add(g["q"])
        order = []
        for s in (t[2][2] if t[2][0] == "Compound" else [t[2]]):
            if not T.is_node(s):
                continue
            for c in T.calls(s):
                qn = T.callee_q(c)
                if qn in clearing:
                    order.append(("clear", c[1]))
                elif isinstance(c[2], dict) and c[2].get("proj") and any(tg in engine_reach for tg in cg.resolve(c[2], f)) and qn not in clearing:
                    order.append(("engine", c[1]))
                elif isinstance(c[2], dict) and c[2].get("proj") and any(tg in may_throw for tg in cg.resolve(c[2], f)):
                    order.append(("fail", c[1], qn))
        first_engine = next((i for i, o in enumerate(order) if o[0] == "engine"), None)
        first_clear = next((i for i, o in enumerate(order) if o[0] == "clear"), None)
        early = [o for o in order[:first_clear]] if first_clear is not None else []
        early = [o for o in early if o[0] == "fail"]
        if first_clear is not None and early:
            R.violation("C08.clear", nm, "%s (line %d) may end the call with a STOP before the error/warning reporters are cleared (line %d): the failing call then "
                        "reports the warnings and output of the previous call as its own" % (early[0][2], early[0][1], order[first_clear][1]), **where)
        elif first_clear is not None and (first_engine is None or first_clear < first_engine):
            R.ok("C08.clear", nm, "reporters cleared (line %d) before the engine runs and before any call that can raise a STOP" % order[first_clear][1])
        else:
            R.violation("C08.clear", nm, "error/warning reporters are not cleared before the engine runs: messages of an earlier call would be reported for this one", **where)
    # IPhreeqc::error_msg throws IPhreeqcStop when stop
    f = P.one("IPhreeqc::error_msg")
    thr = [t_ for t_, ih in throws_with_context(f["body"])]
    if len(thr) >= 1 and all("IPhreeqcStop" in t_[2] for t_ in thr) and f["key"] in mt.ST:
        R.ok("C08.boundary", "IPhreeqc::error_msg:stop", "throws IPhreeqcStop whenever stop is true")
    else:
        R.violation("C08.boundary", "IPhreeqc::error_msg:stop", "IPhreeqc::error_msg does not throw IPhreeqcStop on every path where stop is true",
                    file=f["file"], line=f["line"], function=f["q"])


def _top_level_throw(handler, thr):
    """is thr reachable in the handler outside nested try blocks' own handlers (i.e. it re-throws the handled exception)?"""
    for x, ih in throws_with_context(handler):
        if x is thr:
            return not ih
    return False


# ------------------------------------------------------------------------------------------ error counting

def count_rules(P, R, mt):
    R.rule("C08.count", "an ERROR recorded during a call makes its return value non-zero: counters incremented on every path, reset only before a run", minimum=8)
    tab = load_table("c08_counters.json")
    R.table("c08_counters.json", tab)
    f = P.one("PHRQ_io::error_msg")
    cfg = T.CFG(f, terminates=lambda n: mt.terminating(n, f))
    inc = [nd["id"] for nd in cfg.nodes if T.is_node(nd["n"]) and any(
        T.access_path(t)[1] == [("f", "PHRQ_io::io_error_count")] and how == "++" for t, how, l, n in T.writes(nd["n"]))]
    dom = cfg.dominators()
    if inc and all(any(i in dom.get(x, ()) for i in inc) for x in (cfg.exit, cfg.throwexit) if x in dom):
        R.ok("C08.count", "PHRQ_io::error_msg:increments", "io_error_count++ dominates every exit")
    else:
        R.violation("C08.count", "PHRQ_io::error_msg:increments", "PHRQ_io::error_msg does not increment io_error_count on every path", file=f["file"], line=f["line"], function=f["q"])
    g = P.one("IPhreeqc::error_msg")
    base = [s for s in g["body"][2] if T.is_node(s) and s[0] == "Call" and T.callee_q(s) == "PHRQ_io::error_msg"]
    if len(base) == 1:
        R.ok("C08.count", "IPhreeqc::error_msg:counts", "PHRQ_io::error_msg(str) called unconditionally (counts the error)")
    else:
        R.violation("C08.count", "IPhreeqc::error_msg:counts", "IPhreeqc::error_msg does not call PHRQ_io::error_msg unconditionally: a recorded ERROR may not be counted",
                    file=g["file"], line=g["line"], function=g["q"])
    gi = P.one("Phreeqc::get_input_errors")
    ok = any(x[0] == "Member" and x[2] == "Phreeqc::input_error" for x in T.walk(gi["body"])) and any(
        T.callee_name(c) == "Get_io_error_count" for c in T.calls(gi["body"]))
    if ok:
        R.ok("C08.count", "get_input_errors", "input_error, else phrq_io->Get_io_error_count()")
    else:
        R.violation("C08.count", "get_input_errors", "get_input_errors no longer combines input_error and io_error_count", file=gi["file"], line=gi["line"], function=gi["q"])
    # resets
    for fld, key in (("PHRQ_io::io_error_count", "io_error_count"), ("Phreeqc::input_error", "input_error")):
        allowed = {e["function"]: e["reason"] for e in tab[key]}
        seen = set()
        for k, fn in sorted(P.functions.items()):
            sites = []
            for t, how, l, n in T.writes(fn["body"]):
                root, steps = T.access_path(t)
                if steps and steps[-1] == ("f", fld) and how == "=" and n[0] == "Bin":
                    sites.append((l, T.lit_value(n[4])))
            for c in T.calls(fn["body"]):
                if fld == "PHRQ_io::io_error_count" and T.callee_name(c) == "Set_io_error_count":
                    sites.append((c[1], T.lit_value(c[4][0]) if c[4] else None))
            for i in fn.get("inits", []):
                if i[0] in (fld, fld.split("::")[-1]):
                    sites.append((fn["line"], 0))
            for l, v in sites:
                if v not in (0, None):
                    continue          # setting the counter to a non-zero constant records an error, it does not forget one
                inst = "%s<-%s" % (key, fn["q"])
                if fn["q"] in allowed:
                    if inst not in seen:
                        R.ok("C08.count", inst, "allowed: " + allowed[fn["q"]])
                    seen.add(inst)
                else:
                    R.violation("C08.count", inst, "%s assigns %s (line %d): an ERROR already recorded for the running call is forgotten and the call can return 0"
                                % (fn["q"], key, l), file=fn["file"], line=l, function=fn["q"])
        for fnq in allowed:
            if "%s<-%s" % (key, fnq) not in seen:
                R.anchor_missing("C08.count", "table row %s<-%s matches no assignment any more" % (key, fnq))


# ------------------------------------------------------------------------------------------ increments paired with messages

def is_inc_input_error(n):
    if n[0] == "Un" and n[2] in ("post++", "++"):
        t = T.strip_casts(n[3])
        return T.is_node(t) and t[0] == "Member" and t[2] == "Phreeqc::input_error"
    if n[0] == "Bin" and n[2] == "+=":
        t = T.strip_casts(n[3])
        return T.is_node(t) and t[0] == "Member" and t[2] == "Phreeqc::input_error"
    if n[0] == "Call" and T.callee_name(n) == "incr_input_error":
        return True
    return False


def pair_rules(P, R, mt, cg):
    R.rule("C08.pair", "input_error increments are accompanied by an error message (calculation phases) or backed by the end-of-input check (readers)", minimum=700)
    tab = load_table("c08_pair_exempt.json")
    R.table("c08_pair_exempt.json", tab)
    exempt = {e["function"]: e["reason"] for e in tab["functions"]}
    msg_fns = set(k for k, f in P.functions.items() if f["q"].split("::")[-1] in ("error_msg",) or f["q"] in ("CParser::error_msg", "PHRQ_base::error_msg"))
    reaches_msg = cg.reach_to(msg_fns)
    # end-of-input backing
    tm = P.one("Phreeqc::tidy_model")
    backed = False
    for x in T.walk(tm["body"]):
        if x[0] == "If" and any(T.callee_name(c) == "get_input_errors" for c in T.calls(x[2])):
            if any(mt.terminating(s, tm) for s in T.walk(x[3]) if s[0] == "Call"):
                backed = True
    if backed:
        R.ok("C08.pair", "tidy_model:end-of-input", "get_input_errors() > 0 -> error_msg(.., STOP) after tidying")
    else:
        R.violation("C08.pair", "tidy_model:end-of-input", "tidy_model no longer stops with an ERROR when input errors were counted: a silent input_error++ would "
                    "make the call return non-zero without any ERROR line", file=tm["file"], line=tm["line"], function=tm["q"])
    reader_side = cg.reach_from([k for k, f in P.functions.items() if f["q"] in ("Phreeqc::read_input", "Phreeqc::tidy_model")])
    calc_roots = [k for k, f in P.functions.items() if f["q"] in ("Phreeqc::initial_solutions", "Phreeqc::initial_exchangers", "Phreeqc::initial_surfaces",
                                                                  "Phreeqc::initial_gas_phases", "Phreeqc::reactions", "Phreeqc::inverse_models", "Phreeqc::advection",
                                                                  "Phreeqc::transport", "Phreeqc::run_as_cells", "Phreeqc::do_mixes", "Phreeqc::copy_entities",
                                                                  "Phreeqc::dump_entities", "Phreeqc::delete_entities")]
    calc_side = cg.reach_from(calc_roots)
    for key, f in sorted(P.functions.items()):
        incs = [x for x in T.walk(f["body"]) if is_inc_input_error(x)]
        if not incs:
            continue
        # statements (top-level atoms) of the function that report
        def reports(n):
            for c in T.calls(n):
                cd = c[2]
                if isinstance(cd, dict):
                    nm = T.callee_name(c)
                    if nm in ("error_msg",):
                        return True
                    if cd.get("proj") and any(t in reaches_msg for t in cg.resolve(cd, f)) and nm not in ("sformatf",):
                        return True
            return False
        cfg = None
        for k_, x in enumerate(incs):
            inst = "%s#%d" % (f["q"], k_ + 1)
            if key in reader_side and key not in calc_side:
                R.ok("C08.pair", inst, "reader/tidy side: backed by the end-of-input check")
                continue
            # calculation side: the innermost block that contains the increment also calls error_msg directly
            blk = None
            for b_ in T.walk(f["body"]):
                if b_[0] == "Compound" and any(any(y is x for y in T.walk(s_)) for s_ in b_[2] if T.is_node(s_)):
                    blk = b_          # pre-order walk: the last match is the innermost block
            ok = blk is not None and any(T.callee_name(c) == "error_msg" for s_ in blk[2] if T.is_node(s_) for c in T.calls(s_))
            if ok:
                R.ok("C08.pair", inst, "accompanied by an error message in the same region")
            elif f["q"] in exempt:
                R.ok("C08.pair", inst, "exempt: " + exempt[f["q"]])
            else:
                R.violation("C08.pair", inst, "input_error is incremented at line %d in a calculation-phase function without an error message in the same region: "
                            "the call returns non-zero although no ERROR line describes the failure" % x[1], file=f["file"], line=x[1], function=f["q"])
    for fq in exempt:
        if not P.fns_named(fq):
            R.anchor_missing("C08.pair", "exempt function %s no longer exists" % fq)


# ------------------------------------------------------------------------------------------ keywords

def keyword_rules(P, R, mt):
    R.rule("C08.keywords", "every keyword enumerator has a name and a read_input case; the default case is a STOP error", minimum=60)
    enum = None
    for e in P.enums.values():
        if e["q"].endswith("Keywords::KEYWORDS"):
            enum = e
    if enum is None:
        R.anchor_missing("C08.keywords", "enum Keywords::KEYWORDS not found")
        return
    vals = [(en[0].split("::")[-1], en[1]) for en in enum["enumerators"]]
    count = dict(vals).get("KEY_COUNT_KEYWORDS")
    names = {}
    for g in P.globals:
        if g["name"] == "temp_keyword_names" and T.is_node(g.get("init")):
            for x in T.walk(g["init"]):
                if x[0] in ("Construct", "InitList"):
                    kids = x[3] if x[0] == "Construct" else x[2]
                    ev = [T.strip_casts(a)[5] for a in kids if T.is_node(T.strip_casts(a)) and T.strip_casts(a)[0] == "Ref" and T.strip_casts(a)[2] == "enum"]
                    lit = []
                    for a in kids:
                        for y in T.walk(a):
                            if y[0] == "Lit" and y[2] == "str":
                                lit.append(y[3])
                    if len(ev) == 1 and len(lit) == 1:
                        names[ev[0]] = lit[0]
    ri = P.one("Phreeqc::read_input")
    sw = None
    for x in T.walk(ri["body"]):
        if x[0] == "Switch" and sum(1 for y in T.walk(x[3]) if y[0] == "Case") > 50:
            sw = x
    if sw is None or count is None or not names:
        R.anchor_missing("C08.keywords", "keyword switch / KEY_COUNT_KEYWORDS / name table not found")
        return
    labels = {}
    default_stop = False
    from .. import rawio
    for labs, stmts, line in rawio.switch_groups(sw):
        for lb in labs:
            labels[lb] = (stmts, line)
        if "default" in labs:
            default_stop = any(mt.terminating(c, ri) for s in stmts for c in T.calls(s))
    for nm, v in vals:
        if v is None or v < 0 or v >= count or nm in ("KEY_NONE", "KEY_END"):
            continue
        inst = nm
        probs = []
        if v not in names:
            probs.append("no entry in the keyword name table")
        if v not in labels:
            probs.append("no case in read_input")
        if probs:
            R.violation("C08.keywords", inst, "keyword %s: %s - a block of this kind is silently skipped or misread" % (nm, "; ".join(probs)),
                        file=ri["file"], line=sw[1], function=ri["q"])
        else:
            R.ok("C08.keywords", inst, names[v])
    if default_stop:
        R.ok("C08.keywords", "default", "unknown keyword value -> error_msg(.., STOP)")
    else:
        R.violation("C08.keywords", "default", "the default case of read_input's keyword switch is not a STOP error", file=ri["file"], line=sw[1], function=ri["q"])


# ------------------------------------------------------------------------------------------ bounded copies

def bounded_rules(P, R):
    R.rule("C08.bounded", "fixed-extent destinations: copy_token(char*) bounded by MAX_LENGTH and callers' arrays large enough; no unbounded libc writer into a fixed array", minimum=120)
    fs = [f for f in P.fns_named("Phreeqc::copy_token") if f["params"] and f["params"][0].replace(" ", "") == "char*"]
    if len(fs) != 1:
        R.anchor_missing("C08.bounded", "Phreeqc::copy_token(char*, ...) not found")
        return
    f = fs[0]
    dst = f["pnames"][0]
    # every store through the destination inside a loop is guarded by  idx < CONST
    bound = None
    bad = []
    for lp in T.walk(f["body"]):
        if lp[0] not in ("While", "For", "Do"):
            continue
        body = lp[3] if lp[0] == "While" else (lp[5] if lp[0] == "For" else lp[2])
        for t, how, l, n in T.writes(body):
            root, steps = T.access_path(t)
            if root[0] == "param" and root[1] == dst and steps:
                # find enclosing If with  i < K
                g = guard_const(body, n)
                if g is None:
                    bad.append(l)
                else:
                    bound = g if bound is None else min(bound, g)
    if bad or bound is None:
        R.violation("C08.bounded", "copy_token:bounded", "Phreeqc::copy_token(char*) stores through its destination in a loop without a constant bound (line %s): a long token "
                    "overruns the caller's fixed buffer" % (bad[:3] or "?"), file=f["file"], line=f["line"], function=f["q"])
        return
    R.ok("C08.bounded", "copy_token:bounded", "stores at most %d characters plus the terminator" % bound)
    need = bound + 1
    fld_ext = {}
    for r in P.records.values():
        for fl in r["fields"]:
            if "extent" in fl:
                fld_ext[fl["q"]] = fl["extent"]
    glob_ext = {g["q"]: g.get("extent") for g in P.globals if g.get("extent")}
    n_sites = 0
    for key, g in sorted(P.functions.items()):
        ext = {}
        for x in T.walk(g["body"]):
            if x[0] == "Decl":
                for d in x[2]:
                    if len(d) > 4 and d[4] is not None:
                        ext[d[0]] = d[4]
        k_ = 0
        for c in T.calls(g["body"]):
            cd = c[2]
            if isinstance(cd, dict) and cd.get("id") == f["id"]:
                k_ += 1
                n_sites += 1
                a = T.strip_casts(c[4][0])
                root, steps = T.access_path(a)
                e = None
                if root[0] == "local" and not steps:
                    e = ext.get(root[1])
                elif root == ("this",) and len(steps) == 1:
                    e = fld_ext.get(steps[0][1])
                elif root[0] == "global":
                    e = glob_ext.get(root[1])
                inst = "%s:copy_token#%d" % (g["q"], k_)
                if e is None:
                    R.violation("C08.bounded", inst, "destination `%s` of copy_token is not an array of known extent: the %d-byte bound cannot be established" % (T.text(a), need),
                                file=g["file"], line=c[1], function=g["q"])
                elif e < need:
                    R.violation("C08.bounded", inst, "destination `%s` has %d bytes but copy_token may store %d" % (T.text(a), e, need), file=g["file"], line=c[1], function=g["q"])
                else:
                    R.ok("C08.bounded", inst, "%d-byte array" % e)
    # libc unbounded writers into fixed arrays
    UNB = {"strcpy", "strcat", "sprintf", "vsprintf", "gets", "stpcpy", "sscanf"}
    n_unb = 0
    for key, g in sorted(P.functions.items()):
        ext = {}
        for x in T.walk(g["body"]):
            if x[0] == "Decl":
                for d in x[2]:
                    if len(d) > 4 and d[4] is not None:
                        ext[d[0]] = d[4]
        for c in T.calls(g["body"]):
            q = T.callee_q(c)
            if q not in UNB or not c[4]:
                continue
            if q == "sscanf":
                fmt = T.strip_casts(c[4][1]) if len(c[4]) > 1 else None
                if not (T.is_node(fmt) and fmt[0] == "Lit" and ("%s" in fmt[3] or "%[" in fmt[3])):
                    continue
                dests = c[4][2:]
            else:
                dests = [c[4][0]]
            for a in dests:
                a = T.strip_casts(a)
                root, steps = T.access_path(a)
                e = None
                if root[0] == "local" and not steps:
                    e = ext.get(root[1])
                elif root == ("this",) and len(steps) == 1:
                    e = fld_ext.get(steps[0][1])
                elif root[0] == "global":
                    e = glob_ext.get(root[1])
                src = c[4][1] if len(c[4]) > 1 else None
                lit = src is not None and T.is_node(T.strip_casts(src)) and T.strip_casts(src)[0] == "Lit"
                if e is not None and not (lit and q in ("strcpy", "strcat") and len(T.strip_casts(src)[3]) < e):
                    n_unb += 1
                    R.violation("C08.bounded", "%s:%s->%s" % (g["q"], q, T.text(a)), "%s writes into the %d-byte array `%s` without a bound" % (q, e, T.text(a)),
                                file=g["file"], line=c[1], function=g["q"])
    R.ok("C08.bounded", "libc-census", "no strcpy/strcat/sprintf/vsprintf/sscanf(%%s) with a fixed-extent destination (%d found)" % n_unb)


def guard_const(body, node):
    """smallest K such that `node` is inside `if (i < K)` / `if (i < K - 1)` within body; None if unguarded"""
    best = None

    def rec(n, guards):
        nonlocal best
        if not T.is_node(n):
            return
        if n is node:
            ks = [g for g in guards if g is not None]
            if ks:
                best = min(ks) if best is None else min(best, min(ks))
            return
        if n[0] == "If":
            c = T.strip_casts(n[2])
            k = None
            if c[0] == "Bin" and c[2] in ("<", "<="):
                v = const_int(c[4])
                if v is not None:
                    k = v if c[2] == "<" else v + 1
            rec(n[3], guards + [k])
            rec(n[4], guards)
            return
        for ch in T.children(n):
            rec(ch, guards)
    rec(body, [])
    return best


def const_int(n):
    n = T.strip_casts(n)
    v = T.lit_value(n)
    if v is not None:
        return v
    if T.is_node(n) and n[0] == "Bin" and n[2] in ("-", "+"):
        a, b = const_int(n[3]), const_int(n[4])
        if a is not None and b is not None:
            return a - b if n[2] == "-" else a + b
    return None


# ------------------------------------------------------------------------------------------ save / restore of wrapper switches

def grow_rule(P, R):
    """Valid input of any line length is accepted: cleanup_after_parser copies the parser's last line and its unstripped
    original into the engine's growable buffers `line` / `line_save` with the bounded copy strcpy_safe(dst, max_line, src), which
    throws when src does not fit.  The buffers are grown first when  l >= max_line, so l must be the MAXIMUM of the lengths of
    the strings that are copied; sized from the shorter one, a keyword line with a long trailing comment makes the call throw."""
    R.rule("C08.grow", "cleanup_after_parser grows the line buffers from the maximum length of the strings it copies into them", minimum=2)
    f = P.one("Phreeqc::cleanup_after_parser")
    where = dict(file=f["file"], function=f["q"])
    decls = {}
    for x in T.walk(f["body"]):
        if x[0] == "Decl":
            for d in x[2]:
                if T.is_node(d[2]):
                    decls[d[0]] = (d[2], x[1])
    grow = None
    for x in T.walk(f["body"]):
        if x[0] == "If":
            c = T.strip_casts(x[2])
            if c[0] == "Bin" and c[2] in (">=", ">") and "max_line" in T.text(c[4]) and any(T.callee_name(k) in ("PHRQ_realloc", "realloc") for k in T.calls(x[3])):
                grow = (x, T.strip_casts(c[3]))
    copies = [c for c in T.calls(f["body"]) if T.callee_name(c) == "strcpy_safe" and len(c[4]) == 3 and "max_line" in T.text(c[4][1]) and T.strip_casts(c[4][2])[0] != "Lit"]
    if grow is None or len(copies) < 2:
        R.anchor_missing("C08.grow", "cleanup_after_parser: growth test / bounded copies not found")
        return
    szv = grow[1]
    expr = decls.get(szv[3], (None, 0))[0] if szv[0] == "Ref" else None
    e = T.strip_casts(expr) if expr is not None else None
    ismax = False
    operands = []
    if T.is_node(e) and e[0] == "Cond":
        c, a, b = T.strip_casts(e[2]), T.text(e[3]), T.text(e[4])
        if c[0] == "Bin" and c[2] in (">", ">=", "<", "<="):
            l, r = T.text(c[3]), T.text(c[4])
            operands = [l, r]
            if c[2] in (">", ">=") and a == l and b == r:
                ismax = True
            if c[2] in ("<", "<=") and a == r and b == l:
                ismax = True
    elif T.is_node(e) and e[0] == "Call" and T.callee_name(e) in ("max", "fmax"):
        ismax = True
        operands = [T.text(a_) for a_ in e[4]]
    if ismax:
        R.ok("C08.grow", "size", "the growth test uses max(%s)" % ", ".join(operands))
    else:
        R.violation("C08.grow", "size", "the buffers are grown when `%s` >= max_line, but that is not the maximum of the copied lengths: a line whose original (with its comment) is longer than the "
                    "stripped line is copied into a buffer that was not grown, and strcpy_safe throws on valid input" % (T.text(expr)[:60] if expr is not None else T.text(szv)),
                    line=decls.get(szv[3], (None, f["line"]))[1] if szv[0] == "Ref" else f["line"], **where)
    # each copied source has its length among the operands
    srcs = [T.text(c[4][2]).replace(" ", "") for c in copies]
    lens = {}
    for nm in operands:
        d = decls.get(nm)
        if d:
            for k in T.calls(d[0]):
                if T.callee_name(k) == "strlen":
                    lens[nm] = T.text(k[4][0]).replace(" ", "")
    if all(s_ in lens.values() for s_ in srcs):
        R.ok("C08.grow", "sources", "every copied string has its length in the maximum")
    else:
        R.violation("C08.grow", "sources", "copied strings %s are not all measured for the growth test (%s)" % (srcs, lens), line=copies[0][1], **where)


def restore_rules(P, R, RULE="C08.restore"):
    """IPhreeqc methods that temporarily override a member (`bool save = this->X; this->X = v; ...; this->X = save;`) must
    restore it on every normal path: an early return between override and restore leaves the instance with the temporary
    value - a failed call poisons the user's settings."""
    R.rule(RULE, "wrapper members that are saved, overridden and restored are restored on every normal path (no early return in between)", minimum=6)

    def fpath(n):
        r, st = T.access_path(n)
        if r == ("this",) and st and all(s_[0] == "f" for s_ in st):
            return tuple(s_[1] for s_ in st)
        return None
    for key, f in sorted(P.functions.items()):
        if not f["q"].startswith("IPhreeqc::"):
            continue
        saves = {}
        for x in T.walk(f["body"]):
            if x[0] == "Decl":
                for d in x[2]:
                    if T.is_node(d[2]) and T.strip_casts(d[2])[0] == "Member" and fpath(d[2]):
                        saves[d[0]] = fpath(d[2])
        if not saves:
            continue
        cfg = T.CFG(f)
        pd = cfg.dominators(post=True)

        def node_of(n):
            for nd in cfg.nodes:
                if T.is_node(nd["n"]) and any(y is n for y in T.walk(nd["n"])):
                    return nd["id"]
            return None
        for loc, fp in sorted(saves.items()):
            restores, overw = [], []
            for t, how, line, node in T.writes(f["body"]):
                if fpath(t) == fp and how == "=" and node[0] == "Bin":
                    rv = T.strip_casts(node[4])
                    if T.is_node(rv) and rv[0] == "Ref" and rv[2] == "local" and rv[3] == loc:
                        restores.append(node)
                    else:
                        overw.append(node)
            if not overw:
                continue
            inst = "%s:%s" % (f["q"].split("::")[-1], fp[-1].split("::")[-1])
            if not restores:
                continue       # a plain copy of a member, not a save/restore idiom
            rn = [node_of(r) for r in restores]
            bad = []
            for o in overw:
                on = node_of(o)
                if on is None or on not in pd:
                    continue
                if not any(r in pd[on] for r in rn if r is not None):
                    bad.append(o[1])
            if bad:
                R.violation(RULE, inst, "`%s` is saved in `%s`, overridden at line %s and restored at line %s, but a normal path (an early return) leaves %s without "
                            "the restore: after a failing call the instance keeps the temporary value" % (fp[-1].split("::")[-1], loc, bad, [r[1] for r in restores], f["q"]),
                            file=f["file"], line=bad[0], function=f["q"])
            else:
                R.ok(RULE, inst, "restore at line %s post-dominates the override" % [r[1] for r in restores])


# ------------------------------------------------------------------------------------------ std exceptions (information)

def stdthrow_census(P, R, reach):
    THROWING = {"substr", "at", "stoi", "stol", "stod", "stof", "stoul", "erase", "insert", "replace", "compare", "assign"}
    sites = []
    for key, f in P.functions.items():
        if key not in reach:
            continue
        for c in T.calls(f["body"]):
            cd = c[2]
            if isinstance(cd, dict) and not cd.get("proj") and T.callee_name(c) in ("substr", "at", "stoi", "stol", "stod", "stoul"):
                cls = cd.get("cls", "")
                if "basic_string" in cls or "vector" in cls or "std::" in cd.get("q", ""):
                    sites.append("%s:%d %s" % (f["file"], c[1], cd.get("q", "")[:50]))
    R.info["std_functions_that_may_throw_out_of_range_or_invalid_argument"] = {"count": len(sites), "sample": sorted(sites)[:40],
                                                                               "note": "informational census: each is a potential escaping std::exception; not a verdict"}


def warnbudget_rule(P, R):
    """"The error and warning strings describe that call only": Phreeqc::warning_msg counts warnings and drops every warning
    once the count exceeds the PRINT -warnings budget.  The budget is per simulation: read_input - which every simulation of
    every call starts with - must reset the counter on every path, otherwise warnings of one call are suppressed because of
    what earlier calls reported.  The counter is discovered from warning_msg (member incremented there and compared in a
    test that leads to an early return), not named here."""
    RULE = "C08.warnbudget"
    R.rule(RULE, "the counter that lets warning_msg drop warnings beyond the PRINT -warnings budget is reset by read_input on every path", minimum=1)
    f = P.one("Phreeqc::warning_msg")
    inc = set()
    for t, how, line, n in T.writes(f["body"]):
        root, steps = T.access_path(t)
        if how == "++" and steps and len(steps) == 1 and steps[0][0] == "f":
            inc.add(steps[0][1])
    gates = set()
    for x in T.walk(f["body"]):
        if x[0] == "If" and any(y[0] == "Return" for y in T.walk(x[3])):
            for y in T.walk(x[2]):
                if y[0] == "Member" and y[2] in inc:
                    gates.add(y[2])
    if not gates:
        R.anchor_missing(RULE, "warning_msg no longer has a counter that gates an early return")
        return
    g = P.one("Phreeqc::read_input")
    cfg = T.CFG(g)
    dom = cfg.dominators()
    for m in sorted(gates):
        resets = []
        for nd in cfg.nodes:
            if not T.is_node(nd["n"]):
                continue
            for t, how, line, n in T.writes(nd["n"]):
                root, steps = T.access_path(t)
                if how == "=" and steps == [("f", m)] and T.lit_value(n[4]) == 0:
                    resets.append(nd["id"])
        inst = m.split("::")[-1]
        if resets and any(r in dom.get(cfg.exit, ()) for r in resets):
            R.ok(RULE, inst, "read_input assigns %s = 0 on every path (the assignment dominates its exit)" % inst)
        else:
            R.violation(RULE, inst, "warning_msg drops warnings once %s exceeds pr.warnings, and read_input does not reset it on every path: warnings of a call are "
                        "suppressed because of warnings reported by earlier simulations or calls" % inst, file=g["file"], line=g["line"], function=g["q"])


def reentry_rule(P, R):
    """"Any byte sequence ... no crash": a function that runs a BASIC program (calls basic_run) and is itself reachable from the
    BASIC interpreter can be re-entered by the program it runs - user text decides the recursion depth.  Each such function needs
    a re-entrancy guard: a flag of the object whose program runs, tested before basic_run on a path that ends in an error, and
    set while the program runs."""
    from ..callgraph import CallGraph
    RULE = "C08.reentry"
    R.rule(RULE, "functions that run a BASIC program and can be called from BASIC test a re-entrancy flag before running it", minimum=1)
    cg = CallGraph(P)
    roots = [k for k, g in P.functions.items() if g["q"] == "PBasic::basic_run"]
    if not roots:
        R.anchor_missing(RULE, "PBasic::basic_run not found")
        return
    reach = cg.reach_from(roots)
    runners = [k for k, g in P.functions.items() if k in reach and any(T.callee_q(c) in ("PBasic::basic_run", "Phreeqc::basic_run") for c in T.calls(g["body"]))]
    R.table("C08.reentry.census", {"runners_reachable_from_basic": [P.functions[k]["q"] for k in runners]})
    if not runners:
        R.anchor_missing(RULE, "no function that runs BASIC is reachable from BASIC (get_calculate_value expected)")
        return
    for k in sorted(runners):
        g = P.functions[k]
        run_line = min(c[1] for c in T.calls(g["body"]) if T.callee_q(c) in ("PBasic::basic_run", "Phreeqc::basic_run"))
        guard = None
        for x in T.walk(g["body"]):
            if x[0] != "If" or x[1] >= run_line:
                continue
            body_ = x[3][2] if T.is_node(x[3]) and x[3][0] == "Compound" else [x[3]]
            last = body_[-1] if body_ else None
            stops = T.is_node(last) and (last[0] in ("Return", "Throw") or (last[0] == "Call" and T.callee_name(last) == "error_msg" and len(last[4]) >= 2
                                                                         and T.lit_value(T.strip_casts(last[4][1])) == 1))
            if not stops:
                continue
            cnd = T.strip_casts(x[2])
            if T.is_node(cnd) and cnd[0] == "Paren":
                cnd = T.strip_casts(cnd[2])
            if T.is_node(cnd) and cnd[0] == "Bin" and cnd[2] in ("==", "!="):
                cnd = T.strip_casts(cnd[3]) if T.lit_value(T.strip_casts(cnd[4])) is not None else None
            if not (T.is_node(cnd) and cnd[0] == "Member"):
                continue            # not a plain flag test
            flags = [cnd[2]] if cnd[2].split("::")[0] != "Phreeqc" else []
            for fl in flags:
                # the flag must be set somewhere in this function (directly or in a local guard object constructed from it)
                sets = any(True for t, how, line, n in T.writes(g["body"]) if how in ("=", "ref") and any(y[0] == "Member" and y[2] == fl for y in T.walk(t)))
                passed = any(x2[0] in ("Construct", "Call", "Decl", "Var") and any(y[0] == "Member" and y[2] == fl for y in T.walk(x2)) and x2[1] > x[1] and x2[1] <= run_line for x2 in T.walk(g["body"]))
                if sets or passed:
                    guard = (fl, x[1])
        inst = g["q"].split("::")[-1]
        if guard:
            R.ok(RULE, inst, "tests %s (line %d) and stops before it runs the program again" % guard)
        else:
            R.violation(RULE, inst, "%s runs a BASIC program and can be called from BASIC (CALC_VALUE), but has no re-entrancy guard: a definition that uses its own value recurses "
                        "until the stack overflows (process crash)" % g["q"], file=g["file"], line=run_line, function=g["q"])


def scancount_rule(P, R):
    """A count scanned from input text with sscanf("%d") and then used to size a container (resize / reserve / PHRQ_malloc) can be
    negative: resize(n + 1) with n = -2 throws std::length_error, which escapes the API.  Between the scan and the sizing call
    the function must test the sign of the count (a relational comparison of the scanned variable with a literal)."""
    RULE = "C08.scancount"
    R.rule(RULE, "a count scanned from input is sign-checked before it sizes a container (directly or through one computed local)", minimum=3)

    def key(n):
        n = T.strip_casts(n)
        while T.is_node(n) and n[0] == "Paren":
            n = T.strip_casts(n[2])
        if T.is_node(n) and n[0] == "Member":
            return n[2]
        if T.is_node(n) and n[0] == "Ref":
            return n[3]
        return None
    n_inst = 0
    for k, g in sorted(P.functions.items()):
        scanned = {}
        for c in T.calls(g["body"]):
            if T.callee_name(c) == "sscanf" and len(c[4]) >= 3:
                for a in c[4][2:]:
                    a = T.strip_casts(a)
                    if T.is_node(a) and a[0] == "Un" and a[2] == "&" and key(a[3]):
                        scanned[key(a[3])] = max(scanned.get(key(a[3]), 0), c[1])
        if not scanned:
            continue
        # one step of propagation: a local computed from a scanned count (all_cells_now = max_cells * (1 + count_stag) + 2) carries its sign
        derived = {}
        for t, how, l, x in T.writes(g["body"]):
            if how == "=" and key(t) and key(t) not in scanned:
                for v in {key(y) for y in T.walk(x[4]) if T.is_node(y) and y[0] in ("Member", "Ref")} & set(scanned):
                    if l >= scanned[v]:
                        derived.setdefault(key(t), set()).add(v)
        for d in T.walk(g["body"]):
            if d[0] == "Decl":
                for v_ in d[2]:
                    if len(v_) > 2 and T.is_node(v_[2]):
                        for v in {key(y) for y in T.walk(v_[2]) if T.is_node(y) and y[0] in ("Member", "Ref")} & set(scanned):
                            if d[1] >= scanned[v]:
                                derived.setdefault(v_[0], set()).add(v)
        for c in T.calls(g["body"]):
            if T.callee_name(c) not in ("resize", "reserve", "assign", "PHRQ_malloc", "PHRQ_calloc", "PHRQ_realloc"):
                continue
            for a in c[4]:
                used = {key(y) for y in T.walk(a) if T.is_node(y) and y[0] in ("Member", "Ref")}
                via = set()
                for d in used & set(derived):
                    via |= derived[d]
                for v in (used & set(scanned)) | via:
                    if c[1] < scanned[v]:
                        continue
                    n_inst += 1
                    inst = "%s:%s@%d" % (g["q"].split("::")[-1], v.split("::")[-1], c[1])
                    ok = False
                    for x in T.walk(g["body"]):
                        if x[0] == "If" and x[1] <= c[1]:
                            for y in T.walk(x[2]):
                                if y[0] == "Bin" and y[2] in ("<", "<=", ">", ">=") and ((key(y[3]) == v and T.lit_value(T.strip_casts(y[4])) is not None) or (key(y[4]) == v and T.lit_value(T.strip_casts(y[3])) is not None)):
                                    ok = True
                    if ok:
                        R.ok(RULE, inst, "sign of %s tested before %s(%s)" % (v.split("::")[-1], T.callee_name(c), T.text(a)[:30]))
                    else:
                        R.violation(RULE, inst, "%s is scanned from input (line %d) and sizes a container with %s(%s) without a sign test: a negative count makes the call throw "
                                    "std::length_error / bad_alloc out of the API" % (v, scanned[v], T.callee_name(c), T.text(a)[:40]), file=g["file"], line=c[1], function=g["q"])
    if n_inst < 3:
        R.anchor_missing(RULE, "only %d scanned counts that size a container (read_advection: 2, read_transport -stagnant: 1)" % n_inst)


def rowtypes_rule(P, R):
    """string_to_spread_row keeps three parallel records per cell of a SOLUTION_SPREAD line: the text (str_vector), the type (type_vector)
    and the count; read_solution_spread and spread_row_to_solution index both vectors up to `count`.  Within one iteration of the
    splitting loop every path that reaches `count++` must have pushed a text and a type (the asserts that say so are compiled out in
    release builds): otherwise a cell of unknown type makes the callers read past the end of type_vector."""
    RULE = "C08.rowtypes"
    R.rule(RULE, "string_to_spread_row: every path of the splitting loop that counts a cell has pushed its text and its type", minimum=2)
    f = P.one("Phreeqc::string_to_spread_row")
    loops = [x for x in T.walk(f["body"]) if x[0] in ("For", "While") and any(
        how == "++" and T.access_path(t)[1][-1:] == [("f", "spread_row::count")] for t, how, line, n in T.writes(x))]
    if len(loops) != 1:
        R.anchor_missing(RULE, "string_to_spread_row: %d loops increment spread_row::count" % len(loops))
        return
    loop = loops[0]
    body = loop[5] if loop[0] == "For" else loop[3]
    cfg = T.CFG({"body": body, "line": loop[1], "endline": loop[1]})

    def pushes(n, fld):
        return T.is_node(n) and any(T.callee_name(c) == "push_back" and T.is_node(T.call_obj(c)) and any(
            y[0] == "Member" and y[2] == fld for y in T.walk(T.call_obj(c))) for c in T.calls(n))

    def counts(n):
        return T.is_node(n) and any(how == "++" and T.access_path(t)[1][-1:] == [("f", "spread_row::count")] for t, how, line, w in T.writes(n))
    for fld in ("spread_row::str_vector", "spread_row::type_vector"):
        seen, st, bad = {cfg.entry}, [cfg.entry], None
        while st:
            x = st.pop()
            n = cfg.nodes[x]["n"]
            if pushes(n, fld):
                continue
            if counts(n):
                bad = cfg.nodes[x]["line"]
                break
            for y in cfg.nodes[x]["succ"]:
                if y not in seen:
                    seen.add(y)
                    st.append(y)
        inst = fld.split("::")[-1]
        if bad is None:
            R.ok(RULE, inst, "pushed on every path of the loop body before count++")
        else:
            R.violation(RULE, inst, "a path through the splitting loop reaches count++ (line %d) without a push_back to %s: count exceeds the vector's length and the callers "
                        "index past its end (crash on a cell of unknown type)" % (bad, inst), file=f["file"], line=bad, function=f["q"])


def cutback_rule(P, R):
    """rk_kinetics re-enters a step at the label MOLES_TOO_LARGE after cutting the step size back (a stage removed more than the reactant
    holds, or the solution calculation failed).  The zero-step gate (C08.gotoloop) ends a cycle whose step shrinks to nothing, but a
    cut-back / accept-a-tiny-step / enlarge / cut-back pattern advances by ~1e-16 s per round and never gets there.  The budget of
    failed steps (-bad_step_max: the counter compared with Get_bad_step_max() in a test that ends in STOP) must therefore be charged by
    the cut-back itself: the block under the label that reduces h increments that counter and tests it."""
    RULE = "C08.cutback"
    R.rule(RULE, "rk_kinetics: the cut-back under MOLES_TOO_LARGE charges and tests the -bad_step_max budget", minimum=1)
    f = P.one("Phreeqc::rk_kinetics")
    counters = set()
    for x in T.walk(f["body"]):
        if x[0] == "If" and any(T.callee_name(c) == "Get_bad_step_max" for c in T.calls(x[2])) and any(
                T.callee_name(c) == "error_msg" and len(c[4]) >= 2 and T.lit_value(T.strip_casts(c[4][1])) == 1 for c in T.calls(x[3])):
            for y in T.walk(x[2]):
                if y[0] == "Ref" and y[2] == "local":
                    counters.add(y[3])
    if not counters:
        R.anchor_missing(RULE, "rk_kinetics: no counter is tested against Get_bad_step_max() with STOP")
        return
    labels = [x for x in T.walk(f["body"]) if x[0] == "Label" and x[2] == "MOLES_TOO_LARGE"]
    if len(labels) != 1:
        R.anchor_missing(RULE, "rk_kinetics: label MOLES_TOO_LARGE not found")
        return
    st = labels[0][3]
    if not (T.is_node(st) and st[0] == "If"):
        R.anchor_missing(RULE, "rk_kinetics: the statement under MOLES_TOO_LARGE is not the cut-back test")
        return
    reduces = any(how in ("=", "op=") and T.is_node(T.strip_casts(t)) and T.strip_casts(t)[0] == "Ref" and T.strip_casts(t)[3] == "h" for t, how, line, n in T.writes(st[3]))
    if not reduces:
        R.anchor_missing(RULE, "rk_kinetics: the block under MOLES_TOO_LARGE does not assign h")
        return
    charged = [c for c in counters if any(how == "++" and T.is_node(T.strip_casts(t)) and T.strip_casts(t)[0] == "Ref" and T.strip_casts(t)[3] == c for t, how, line, n in T.writes(st[3]))]
    tested = any(x[0] == "If" and any(T.callee_name(c) == "Get_bad_step_max" for c in T.calls(x[2])) for x in T.walk(st[3]))
    if charged and tested:
        R.ok(RULE, "MOLES_TOO_LARGE", "cut-back increments %s and tests it against -bad_step_max" % charged[0])
    else:
        R.violation(RULE, "MOLES_TOO_LARGE", "the cut-back under MOLES_TOO_LARGE reduces h without charging the failed-step budget (%s): a reaction that fails at every step size above "
                    "~1e-16 s alternates cut-back and tiny accepted steps and the call does not return" % ", ".join(sorted(counters)), file=f["file"], line=labels[0][1], function=f["q"])


NULLTHENUSE_EXEMPT = {
    # function -> reason the null branch cannot be left with a null pointer
    "Phreeqc::isotope_balance_equation": "read_inv_isotopes stops with `Element not found for isotope calculation` for an undefined element, so primary_ptr is never NULL here "
                                          "(replayed: INVERSE_MODELING -isotopes 13Zz ends in that input error)",
}


def nullthenuse_rule(P, R):
    """"Any byte sequence ... no crash": the engine reports many faults of the input with error_msg(..., CONTINUE) and goes on collecting
    errors.  A test `if (p == NULL) { report, continue }` that is followed at once by a statement that dereferences p contradicts itself:
    either the test can never be true or the next statement crashes (tidy_model: a database without e-).  Program-wide: an if without
    else whose condition is a null test of a pointer, whose body neither ends the flow (return / throw / break / continue / goto /
    error_msg STOP / errormsg / malloc_error) nor assigns the pointer, and whose next sibling statement dereferences the pointer in its
    own condition or expression."""
    RULE = "C08.nullthenuse"
    R.rule(RULE, "no null test that reports and continues is followed directly by a dereference of the same pointer", minimum=1)

    def nulltest(c):
        c = T.strip_casts(c)
        if T.is_node(c) and c[0] == "Paren":
            return nulltest(c[2])
        if T.is_node(c) and c[0] == "Bin" and c[2] == "==":
            a, b = T.strip_casts(c[3]), T.strip_casts(c[4])
            for p_, q_ in ((a, b), (b, a)):
                if T.is_node(q_) and q_[0] == "Lit" and str(q_[3]) == "0" and T.is_node(p_) and p_[0] in ("Member", "Ref") and str(p_[4]).rstrip().endswith("*"):
                    return " ".join(T.text(p_).split())
        if T.is_node(c) and c[0] == "Un" and c[2] == "!":
            p_ = T.strip_casts(c[3])
            if T.is_node(p_) and p_[0] in ("Member", "Ref") and str(p_[4]).rstrip().endswith("*"):
                return " ".join(T.text(p_).split())
        return None

    def ends_flow(st):
        for y in T.walk(st):
            if y[0] in ("Return", "Throw", "Break", "Continue", "Goto"):
                return True
            if y[0] == "Call" and T.callee_name(y) in ("errormsg", "malloc_error", "exit", "abort"):
                return True
            if y[0] == "Call" and T.callee_name(y) == "error_msg" and len(y[4]) >= 2 and T.lit_value(T.strip_casts(y[4][1])) == 1:
                return True
        return False

    def deref(n, x):
        for y in T.walk(n):
            if y[0] == "Member" and T.is_node(y[3]) and " ".join(T.text(T.strip_casts(y[3])).split()) == x:
                return y[1]
        return None
    tests = 0
    for k, g in sorted(P.functions.items(), key=lambda kv: kv[1]["q"]):
        for comp in T.walk(g["body"]):
            if comp[0] != "Compound":
                continue
            st = comp[2]
            for i, s_ in enumerate(st[:-1]):
                if not (T.is_node(s_) and s_[0] == "If" and not T.is_node(s_[4])):
                    continue
                x = nulltest(s_[2])
                if not x:
                    continue
                tests += 1
                if ends_flow(s_[3]) or any(" ".join(T.text(T.strip_casts(t)).split()) == x for t, how, l, w in T.writes(s_[3])):
                    continue
                nx = st[i + 1]
                if not T.is_node(nx):
                    continue
                target = nx[2] if nx[0] == "If" else (nx if nx[0] in ("Bin", "Call", "Un") else None)
                if target is None:
                    continue
                d = deref(target, x)
                if not d:
                    # ... or hands the pointer on: push_back(p) into a list whose readers dereference every entry (get_list_master_ptrs)
                    for c in ([target] if target[0] == "Call" else []):
                        if T.callee_name(c) == "push_back" and c[4] and " ".join(T.text(T.strip_casts(c[4][0])).split()) == x:
                            d = c[1]
                if not d:
                    continue
                inst = "%s@%d" % (g["q"].split("::")[-1], s_[1])
                if g["q"] in NULLTHENUSE_EXEMPT:
                    R.ok(RULE, inst, "exempt: " + NULLTHENUSE_EXEMPT[g["q"]])
                else:
                    R.violation(RULE, inst, "`%s` is tested for NULL at line %d, the branch reports and goes on, and line %d dereferences it: input that makes the test true crashes the "
                                "process" % (x, s_[1], d), file=g["file"], line=d, function=g["q"])
    R.table("C08.nullthenuse.census", {"null_tests_without_else": tests})
    if tests < 300:
        R.anchor_missing(RULE, "only %d null tests found" % tests)
    else:
        R.ok(RULE, "census", "%d null tests without else examined" % tests)


def registered_rule(P, R):
    """initial_solutions walks Rxn_new_solution and dereferences Rxn_solution_map.find(n) for every number it finds there.  A reader
    that registers a number must therefore store a solution under that number on the same paths: in a function that does both
    (`Rxn_new_solution.insert(n)` and `Rxn_solution_map[n] = ...`), the conditions on n that guard the store must guard the
    registration too.  (SOLUTION_SPREAD stores a row with a negative number as an unnumbered solution.)"""
    RULE = "C08.registered"
    R.rule(RULE, "a solution number is registered in Rxn_new_solution under the same conditions on the number as the solution is stored under it", minimum=1)

    def conds_of(fn, pred):
        out = []

        def rec(n, conds):
            if not T.is_node(n):
                return
            if pred(n):
                out.append((n, list(conds)))
            if n[0] == "If":
                rec(n[2], conds)
                rec(n[3], conds + [("+", n[2])])
                rec(n[4], conds + [("-", n[2])])
                return
            for ch in T.children(n):
                rec(ch, conds)
        rec(fn["body"], [])
        return out
    n = 0
    for k, g in sorted(P.functions.items(), key=lambda kv: kv[1]["q"]):
        def is_insert(x):
            return x[0] == "Call" and T.callee_name(x) == "insert" and T.call_obj(x) is not None and any(
                y[0] == "Member" and y[2] == "Phreeqc::Rxn_new_solution" for y in T.walk(T.call_obj(x)))

        def is_store(x):
            return x[0] == "Call" and T.callee_name(x) == "operator=" and x[4] and any(
                y[0] == "Call" and T.callee_name(y) == "operator[]" and y[4] and any(z[0] == "Member" and z[2] == "Phreeqc::Rxn_solution_map" for z in T.walk(y[4][0])) for y in T.walk(x[4][0]))
        ins, sto = conds_of(g, is_insert), conds_of(g, is_store)
        if not ins or not sto:
            continue
        for c, conds in ins:
            arg = T.strip_casts(c[4][0]) if c[4] else None
            if not (T.is_node(arg) and arg[0] == "Ref"):
                continue
            v = arg[3]
            n += 1

            def on_v(cs):
                return sorted(sign + " ".join(T.text(e).split()) for sign, e in cs if any(y[0] == "Ref" and y[3] == v for y in T.walk(e)))
            want = [on_v(cs) for _, cs in sto if any(y[0] == "Ref" and y[3] == v for y in T.walk(_))]
            got = on_v(conds)
            inst = "%s@%d" % (g["q"].split("::")[-1], c[1])
            if not want or got in want:
                R.ok(RULE, inst, "registered under %s" % (got or "no condition on the number"))
            else:
                R.violation(RULE, inst, "the number `%s` is registered in Rxn_new_solution under %s but the solution is stored in Rxn_solution_map[%s] under %s: for the other values "
                            "initial_solutions dereferences find(%s) == end()" % (v, got or "no condition", v, want[0], v), file=g["file"], line=c[1], function=g["q"])
    if n < 1:
        R.anchor_missing(RULE, "no function both registers and stores a solution number")


def samehint_rule(P, R):
    """`TRANSPORT -same_model cells` lets the user state that a cell has the reactants of the cell calculated before, so that the model
    is kept.  quick_setup, which runs when check_same_model answers TRUE, writes master[i]->unknown->moles for every element present; the
    answer may therefore be given from the hint only after the loop that compares the elements with the kept model - otherwise an element
    arriving by transport in a flagged cell is written through a null pointer."""
    RULE = "C08.samehint"
    R.rule(RULE, "check_same_model trusts the -same_model hint only after it has compared the elements with the kept model", minimum=1)
    f = P.one("Phreeqc::check_same_model")
    hints = [x for x in T.walk(f["body"]) if x[0] == "If" and any(y[0] == "Member" and y[2].endswith("::same_model") for y in T.walk(x[2]))
             and any(y[0] == "Return" for y in T.walk(x[3]))]
    loops = [x for x in T.walk(f["body"]) if x[0] == "For" and T.is_node(x[3]) and any(y[0] == "Member" and y[2] == "Phreeqc::master" for y in T.walk(x[3]))
             and any(y[0] == "Return" for y in T.walk(x[5]))]
    if not hints:
        R.ok(RULE, "check_same_model", "no shortcut on the -same_model hint")
        return
    if not loops:
        R.anchor_missing(RULE, "check_same_model: loop over the master species not found")
        return
    if all(h[1] > loops[0][1] for h in hints):
        R.ok(RULE, "check_same_model", "hint at line %d, after the element loop at line %d" % (hints[0][1], loops[0][1]))
    else:
        R.violation(RULE, "check_same_model", "the -same_model hint returns TRUE (line %d) before the elements are compared with the kept model (loop at line %d): quick_setup then writes "
                    "through master[i]->unknown == NULL for an element the kept model lacks" % (hints[0][1], loops[0][1]), file=f["file"], line=hints[0][1], function=f["q"])


# accessors of the stored entities that run OUTSIDE a simulation (GetComponentCount / GetComponent): same obligation as step.cpp
PHASELOOKUP_ACCESSORS = ("Phreeqc::list_GasComponents", "Phreeqc::list_SolidSolutions", "Phreeqc::list_EquilibriumPhases", "Phreeqc::list_components")


def phaselookup_rule(P, R):
    """"never a crash": the reactants of an instance outlive the simulation that defined them - also a simulation that stopped because a
    block names a phase the database does not have.  The functions of a reaction step (step.cpp) look the phase of every component up
    again with phase_bsearch, which returns NULL for an unknown name.  Every pointer obtained that way must be tested before the first
    dereference (an `if` that mentions the pointer itself, not a member reached through it); the guards added stop the run with "Phase not
    found in database".  Census of step.cpp."""
    RULE = "C08.phaselookup"
    R.rule(RULE, "step.cpp and the component-list accessors: a pointer returned by phase_bsearch is null-tested before its first dereference", minimum=10)
    n = 0
    for f in sorted(P.functions.values(), key=lambda g: (g["file"], g["line"])):
        if not f.get("body") or not (f["file"].endswith("step.cpp") or f["q"] in PHASELOOKUP_ACCESSORS):
            continue
        defs = []
        for x in T.walk(f["body"]):
            if x[0] == "Decl":
                for d in x[2]:
                    i = T.strip_casts(d[2]) if d[2] is not None else None
                    if T.is_node(i) and i[0] == "Call" and T.callee_name(i) == "phase_bsearch":
                        defs.append((d[0], x[1]))
            if x[0] == "Bin" and x[2] == "=":
                r, l = T.strip_casts(x[4]), T.strip_casts(x[3])
                if T.is_node(r) and r[0] == "Call" and T.callee_name(r) == "phase_bsearch" and T.is_node(l) and l[0] == "Ref":
                    defs.append((l[3], x[1]))
        for var, line in defs:
            def through(z):
                return z[0] == "Member" and T.is_node(T.strip_casts(z[3])) and T.strip_casts(z[3])[0] == "Ref" and T.strip_casts(z[3])[3] == var
            derefs = sorted(y[1] for y in T.walk(f["body"]) if through(y) and y[1] >= line)
            tests = sorted(y[1] for y in T.walk(f["body"]) if y[0] == "If" and y[1] >= line and any(z[0] == "Ref" and z[3] == var for z in T.walk(y[2]))
                           and not any(through(z) for z in T.walk(y[2])))
            n += 1
            inst = "%s:%s@%d" % (f["q"].split("::")[-1], var, line - f["line"])
            if not derefs or (tests and tests[0] <= derefs[0]):
                R.ok(RULE, inst, "tested at line %s" % (tests[0] if tests else "- (never dereferenced)"))
            else:
                R.violation(RULE, inst, "`%s` = phase_bsearch(...) (line %d) is dereferenced at line %d without a null test: a reactant kept from a definition that failed on an "
                            "unknown phase crashes the host process when it is used" % (var, line, derefs[0]), file=f["file"], line=derefs[0], function=f["q"])
    if n < 10:
        R.anchor_missing(RULE, "only %d phase_bsearch results found in step.cpp and the list_* accessors" % n)


def shiftdir_rule(P, R):
    """"the call returns normally": transport() moves the column with loops of the form `for (i = last_c; i != first_c - ishift; i -=
    ishift)` - an inequality test that is met only when the step divides the distance.  ishift is read from the input (`-shifts n dir`,
    `-flow_direction`), so every assignment of ishift from scanned text must be followed, in the reader, by a range test that confines it
    to -1 .. 1 (an input error otherwise); assignments of the literals -1, 0, 1 need none."""
    RULE = "C08.shiftdir"
    R.rule(RULE, "read_transport: ishift scanned from the input is confined to -1 .. 1 before transport() steps its `i != end` loops with it", minimum=1)
    f = P.one("Phreeqc::read_transport")
    scans = [c for c in T.calls(f["body"]) if T.callee_name(c) == "sscanf" and any(
        T.is_node(T.strip_casts(a)) and T.strip_casts(a)[0] == "Un" and T.strip_casts(a)[2] == "&" and "ishift" in T.text(T.strip_casts(a)[3]) for a in c[4][2:])]
    tr = P.one("Phreeqc::transport")
    neq = [lp for lp in T.walk(tr["body"]) if lp[0] == "For" and T.is_node(lp[3]) and lp[3][0] == "Bin" and lp[3][2] == "!=" and "ishift" in T.text(lp[3][4], -40)]
    if not scans or not neq:
        R.anchor_missing(RULE, "ishift scans in read_transport: %d, `!=` loops stepped by ishift in transport: %d" % (len(scans), len(neq)))
        return
    for c in scans:
        inst = "scan@%d" % (c[1] - f["line"])
        tests = [x for x in T.walk(f["body"]) if x[0] == "If" and c[1] <= x[1] <= c[1] + 6 and "ishift" in T.text(x[2], -40)
                 and any(y[0] == "Bin" and y[2] in ("<", ">", "<=", ">=") for y in T.walk(x[2])) and any(T.callee_name(k) == "error_msg" for k in T.calls(x[3]))]
        if tests:
            R.ok(RULE, inst, "range test at line %d; %d loops in transport() rely on it" % (tests[0][1], len(neq)))
        else:
            R.violation(RULE, inst, "ishift is scanned from the input (line %d) without a range test: `-shifts n 2` makes the shift loop `i != first_c - ishift; i -= ishift` of "
                        "transport() (line %d) run past its end value - the call does not return" % (c[1], neq[0][1]), file=f["file"], line=c[1], function=f["q"])


def errview_rule(P, R):
    """"the error and warning strings describe that call only": the strings and their line views are views of the two reporters, refreshed by
    update_errors after every change of a reporter and at the end of every call.  Other functions (UnLoadDatabase) empty the cached strings
    without touching the line vectors, so update_errors must rebuild both views UNCONDITIONALLY - `<X>Lines.clear()` and the assignment of
    `<X>String` from the reporter as direct statements of the function.  A refresh that is skipped when the text "has not changed" compares
    "" with "" after a load and leaves the lines of the failed call before it."""
    RULE = "C08.errview"
    R.rule(RULE, "update_errors clears the error / warning line views and re-reads the reporter text unconditionally", minimum=2)
    f = P.one("IPhreeqc::update_errors")
    direct = [st for st in f["body"][2] if T.is_node(st)]
    for x in ("Error", "Warning"):
        cleared = any(st[0] == "Call" and T.callee_name(st) == "clear" and T.call_obj(st) is not None and (x + "Lines") in T.text(T.call_obj(st)) for st in direct)
        assigned = any((st[0] == "Bin" and st[2] == "=" and (x + "String") in T.text(st[3])) or
                       (st[0] == "Call" and T.callee_name(st) == "operator=" and st[4] and (x + "String") in T.text(st[4][0])) for st in direct)
        if cleared and assigned:
            R.ok(RULE, x, "%sLines.clear() and %sString = reporter text are direct statements" % (x, x))
        else:
            R.violation(RULE, x, "update_errors rebuilds the %s views only under a condition (%s): after a function that emptied the cached string (UnLoadDatabase) the lines of "
                        "an earlier, failed call stay visible although the string is empty" % (x.lower(), "the line vector is not cleared unconditionally" if not cleared
                                                                                              else "the string is not re-read unconditionally"),
                        file=f["file"], line=f["line"], function=f["q"])


def growbail_rule(P, R):
    """The readers of -add_logk grow `add_logk` by one entry and only then look for the name that belongs in it.  When the name is missing
    they report with CONTINUE and leave the case: the entry that stays must not be a half-built one (name == NULL), because tidy runs before
    the input-error stop and builds a std::string from every name (std::logic_error leaves the API).  Rule: after `X.add_logk.resize(n + 1)`
    every flow-ending `if` that precedes the assignment of `.name` in the same statement list takes the entry back
    (resize(n) / pop_back), or the growth comes after the test."""
    RULE = "C08.growbail"
    R.rule(RULE, "-add_logk readers: an entry grown before its name is read is taken back on the path that reports a missing name or constant", minimum=9)
    n_inst = 0
    for k, g in sorted(P.functions.items(), key=lambda kv: kv[1]["q"]):
        if "add_logk" not in T.text(g["body"], -400) if False else False:
            continue
        for comp in T.walk(g["body"]):
            if comp[0] != "Compound":
                continue
            st = [x for x in comp[2] if T.is_node(x)]
            for i, s_ in enumerate(st):
                if not (s_[0] == "Call" and T.callee_name(s_) == "resize" and T.call_obj(s_) is not None and "add_logk" in T.text(T.call_obj(s_), -40)
                        and s_[4] and "+ 1" in T.text(s_[4][0], -40)):
                    continue
                named = None
                for j in range(i + 1, len(st)):
                    if any(how == "=" and T.text(t, -40).rstrip().endswith(".name") and "add_logk" in T.text(t, -40) for t, how, l, x in T.writes(st[j])) and st[j][0] != "If":
                        named = j
                        break
                if named is None:
                    continue
                for j in range(i + 1, named):
                    if st[j][0] != "If" or not any(y[0] in ("Break", "Return", "Continue") for y in T.walk(st[j][3])):
                        continue
                    n_inst += 1
                    inst = "%s@%d" % (g["q"].split("::")[-1], st[j][1] - g["line"])
                    back = any(T.callee_name(c) in ("resize", "pop_back", "erase") and T.call_obj(c) is not None and "add_logk" in T.text(T.call_obj(c), -40)
                               and not (c[4] and "+ 1" in T.text(c[4][0], -40)) for c in T.calls(st[j][3]))
                    if back:
                        R.ok(RULE, inst, "the bail-out at line %d takes the new entry back" % st[j][1])
                    else:
                        R.violation(RULE, inst, "add_logk is grown at line %d; the test at line %d reports and leaves the case with the new entry's name still NULL: "
                                    "`-add_logk` without a name makes tidy build a std::string from NULL (std::logic_error out of RunString)" % (s_[1], st[j][1]),
                                    file=g["file"], line=st[j][1], function=g["q"])
    if n_inst < 9:
        R.anchor_missing(RULE, "only %d grow-then-test sites for add_logk (5 -add_logk and 4 -add_constant readers confirmed)" % n_inst)


def progindex_rule(P, R):
    """PBasic: an integer that comes from the running program (intfactor / intexpr and nothing else) and subscripts an engine container is
    tested below AND above before the subscript: a relational comparison of the variable with a literal (lower bound: the values are
    1-based or cell numbers) and a relational comparison with a non-literal (the extent)."""
    RULE = "C08.progindex"
    R.rule(RULE, "PBasic: a container subscript taken from the BASIC program is range-tested on both sides", minimum=2)
    import collections
    n_inst = 0
    for k, g in sorted(P.functions.items(), key=lambda kv: kv[1]["q"]):
        if not g["q"].startswith("PBasic::"):
            continue
        src = collections.defaultdict(set)
        for t, how, l, x in T.writes(g["body"]):
            kk = " ".join(T.text(t, -40).split())
            r = T.strip_casts(x[4]) if how == "=" else None
            if T.is_node(r) and r[0] == "Call" and T.callee_name(r) in ("intfactor", "intexpr"):
                src[kk].add("prog")
            else:
                src[kk].add("other")
        ints = {kk for kk, s_ in src.items() if s_ == {"prog"} and re.match(r"^\w+$", kk)}
        for y in T.walk(g["body"]):
            if not (y[0] == "Call" and T.callee_name(y) == "operator[]" and len(y[4]) >= 2):
                continue
            used = {v for v in ints if re.search(r"\b%s\b" % re.escape(v), T.text(y[4][1], -40))}
            for v in sorted(used):
                n_inst += 1
                inst = "%s:%s" % (g["q"].split("::")[-1], v)
                lower = upper = False
                for b in T.walk(g["body"]):
                    if b[0] == "Bin" and b[2] in ("<", "<=", ">", ">=") and b[1] <= y[1]:
                        l_, r_ = T.strip_casts(b[3]), T.strip_casts(b[4])
                        for a_, o_ in ((l_, r_), (r_, l_)):
                            if T.is_node(a_) and " ".join(T.text(a_, -40).split()) == v:
                                if T.lit_value(o_) is not None:
                                    lower = True
                                else:
                                    upper = True
                if lower and upper:
                    R.ok(RULE, inst, "%s is compared with a literal and with the extent before %s" % (v, T.text(y, -40)[:50]))
                else:
                    R.violation(RULE, inst, "%s comes from the BASIC program and subscripts %s at line %d without a %s-bound test: e.g. PARM(-1) reads far outside the "
                                "container and crashes the process" % (v, T.text(y[4][0], -40)[:40], y[1], "lower" if not lower else "upper"),
                                file=g["file"], line=y[1], function=g["q"])
    if n_inst < 2:
        R.anchor_missing(RULE, "only %d program-valued subscripts found (PARM, CHANGE_POR confirmed)" % n_inst)


def samegas_rule(P, R):
    """check_same_model decides whether the unknowns built for the last model can be reused.  quick_setup dereferences
    use.Get_gas_phase_ptr() whenever gas_unknown is set, and gas_unknown is set for every gas phase, also one without components.  So
    in the branch for 'no gas phase in use now' the answer must not depend on the length of last_model.gas_phase alone (an empty
    GAS_PHASE leaves it empty): it has to look at a field that save_model sets differently with and without a gas phase
    (gas_phase_type is GP_UNKNOWN exactly without), or at gas_unknown itself; or quick_setup guards the pointer."""
    RULE = "C08.samegas"
    R.rule(RULE, "check_same_model: with no gas phase in use, a last model that had a gas phase (even an empty one) is a different model", minimum=1)
    f = P.one("Phreeqc::check_same_model")
    sm = P.one("Phreeqc::save_model")
    qs = P.one("Phreeqc::quick_setup")
    ifs = [x for x in T.walk(f["body"]) if x[0] == "If" and "Get_gas_phase_ptr" in T.text(x[2], -40) and T.is_node(x[4])]
    sets = [x for x in T.walk(sm["body"]) if x[0] == "If" and "Get_gas_phase_ptr" in T.text(x[2], -40) and T.is_node(x[4])
            and any("gas_phase_type" in T.text(t, -40) for t, how, l, w in T.writes(x[4]))]
    if len(ifs) != 1 or not sets:
        R.anchor_missing(RULE, "check_same_model gas-phase if/else: %d; save_model else-branch that sets gas_phase_type: %d" % (len(ifs), len(sets)))
        return
    conds = [T.text(x[2], -40) for x in T.walk(ifs[0][4]) if x[0] == "If" and any(y[0] == "Return" for y in T.walk(x[3]))]
    guarded = any(x[0] == "If" and "gas_unknown" in T.text(x[2], -40) and "Get_gas_phase_ptr" in T.text(x[2], -40) for x in T.walk(qs["body"]))
    if any("gas_phase_type" in c or "gas_unknown" in c for c in conds) or guarded:
        R.ok(RULE, "check_same_model:no-gas", "tests %s" % ("; ".join(conds)[:120] if not guarded else "quick_setup guards the pointer"))
    else:
        R.violation(RULE, "check_same_model:no-gas", "with no gas phase in use the model counts as the same unless last_model.gas_phase has entries (%s): after a simulation with "
                    "an empty GAS_PHASE the list is empty, gas_unknown is set, and quick_setup dereferences the null gas-phase pointer" % "; ".join(conds)[:100],
                    file=f["file"], line=ifs[0][4][1], function=f["q"])


def _norm40(n):
    return " ".join(T.text(T.strip_casts(n), -40).split())


def nulltests(cond):
    out = set()
    for y in T.walk(cond):
        if y[0] == "Bin" and y[2] in ("==", "!="):
            for a, b in ((y[3], y[4]), (y[4], y[3])):
                b = T.strip_casts(b)
                if T.is_node(b) and b[0] == "Lit" and str(b[3]) == "0":
                    out.add(_norm40(a))
    return out

THEN_NULL = []


def _is_null_equality(c):
    c = T.strip_casts(c)
    while T.is_node(c) and c[0] == "Paren":
        c = T.strip_casts(c[2])
    if T.is_node(c) and c[0] == "Bin" and c[2] == "==":
        for b in (c[3], c[4]):
            b = T.strip_casts(b)
            if T.is_node(b) and b[0] == "Lit" and str(b[3]) == "0":
                return True
    return False


def governing(node, target, acc):
    """conditions that govern `target` inside `node`: the conditions of enclosing if / loop statements, of the statement it sits in,
    and of the if statements that precede it in an enclosing statement list (the report-and-continue idiom)"""
    if node is target:
        return True
    if not T.is_node(node):
        return False
    if node[0] == "Compound":
        for i, st in enumerate(node[2]):
            if governing(st, target, acc):
                for prev in node[2][:i]:
                    if T.is_node(prev) and prev[0] == "If":
                        acc.append(prev[2])
                return True
        return False
    for ci, ch in enumerate(node[2:]):
        if isinstance(ch, list) and governing_any(ch, target, acc):
            if node[0] == "If" and ci == 1 and _is_null_equality(node[2]):
                # the target sits in the branch where the pointer IS null: that test guards nothing (callers may look at THEN_NULL)
                THEN_NULL.append(node[2])
            elif node[0] in ("If", "While", "Cond"):
                acc.append(node[2])
            elif node[0] == "For" and T.is_node(node[3]):
                acc.append(node[3])
            return True
    return False

def in_sformatf(body, target):
    return any(c[0] == "Call" and T.callee_name(c) == "sformatf" and any(z is target for z in T.walk(c)) for c in T.walk(body))

def governing_any(ch, target, acc):
    if T.is_node(ch):
        return governing(ch, target, acc)
    return any(isinstance(c, list) and governing_any(c, target, acc) for c in ch)


NOMASTER_EXEMPT = {
    "Phreeqc::tidy_min_surface|sformatf": "the warning text names the master species of the component found above; a component whose element has no master made the "
                                          "function report `Surface formula does not contain a surface master species` and `continue` before this loop "
                                          "(replayed: `SURFACE 1; Zz_wOCa5 Calcite equilibrium_phase 0.1 100` ends in input errors, no crash)",
    "Phreeqc::tidy_inverse": "elements of solutions and phases already checked; `if (get_input_errors() > 0) return (ERROR)` precedes the loop",
}


def nomaster_rule(P, R):
    """tidy.cpp resolves elements written by the user in formulas (exchangers and surfaces related to minerals or kinetic reactants,
    -mole_balance).  element_store() creates an element for any name; one that is not in the database has master == primary == NULL, which
    the routines report with CONTINUE.  Every dereference of `<elt>->master` / `<elt>->primary` in tidy.cpp therefore needs a null test of
    the same access path in a condition that governs it: its own condition, an enclosing if / loop condition, or an `if` that precedes
    it in an enclosing statement list (the report-and-continue idiom)."""
    RULE = "C08.nomaster"
    R.rule(RULE, "tidy.cpp: element::master / element::primary is null-tested before it is dereferenced", minimum=18)

    def norm(n):
        return " ".join(T.text(T.strip_casts(n), -40).split())
    n_inst = 0
    for k, g in sorted(P.functions.items(), key=lambda kv: kv[1]["q"]):
        if not g["file"].endswith("tidy.cpp"):
            continue
        seen = set()
        for y in T.walk(g["body"]):
            if not (y[0] == "Member" and T.is_node(y[3])):
                continue
            b = T.strip_casts(y[3])
            if not (T.is_node(b) and b[0] == "Member" and b[2].split("::")[-1] in ("primary", "master") and "element" in b[2]):
                continue
            key = (y[1], norm(b))
            if key in seen:
                continue
            seen.add(key)
            n_inst += 1
            inst = "%s@%d" % (g["q"].split("::")[-1], y[1] - g["line"])
            acc = []
            governing(g["body"], y, acc)
            if any(norm(b) in nulltests(c) for c in acc):
                R.ok(RULE, inst, "%s null-tested in a condition that governs line %d" % (norm(b)[-40:], y[1]))
            elif g["q"] in NOMASTER_EXEMPT or (g["q"] + "|sformatf" in NOMASTER_EXEMPT and in_sformatf(g["body"], y)):
                R.ok(RULE, inst, "exempt: " + (NOMASTER_EXEMPT.get(g["q"]) or NOMASTER_EXEMPT[g["q"] + "|sformatf"]))
            else:
                R.violation(RULE, inst, "`%s` is dereferenced at line %d with no null test before it: an element name that is not in the database (reported with CONTINUE) "
                            "crashes the process here" % (norm(b)[-60:], y[1]), file=g["file"], line=y[1], function=g["q"])
    if n_inst < 18:
        R.anchor_missing(RULE, "only %d dereferences of element::master / primary in tidy.cpp (20 confirmed)" % n_inst)


def usedump_rule(P, R):
    """Use2cxxStorageBin copies what the `use` structure points at into a storage bin; set_and_run_wrapper calls it to write error.inp
    when a calculation fails on every convergence setting.  The `<kind>_in` flags are set when a block is READ, the pointers are
    resolved only when the entity is used, so a failure of an earlier calculation in the same simulation finds flags without pointers:
    every dereference of a local taken from use.Get_<kind>_ptr() is governed by a null test of that local."""
    RULE = "C08.usedump"
    R.rule(RULE, "Use2cxxStorageBin: a pointer taken from the use structure is null-tested before it is dereferenced or walked", minimum=3)
    f = P.one("Phreeqc::Use2cxxStorageBin")
    locs = {}
    ndecl = 0
    for d in T.walk(f["body"]):
        if d[0] == "Decl":
            for v in d[2]:
                if len(v) > 2 and T.is_node(v[2]) and re.search(r"use\.Get_\w+_ptr\(\)$|^Utilities::Rxn_find<", T.text(v[2], -40).replace("this.", "")):
                    locs[v[0]] = d[1]
                    ndecl += 1
    n_inst = 0
    for y in T.walk(f["body"]):
        uses = []
        if y[0] == "Member" and T.is_node(y[3]):
            b = T.strip_casts(y[3])
            if T.is_node(b) and b[0] == "Ref" and b[3] in locs:
                uses.append(b[3])
        elif y[0] == "Call" and T.call_obj(y) is not None:
            b = T.strip_casts(T.call_obj(y))
            if T.is_node(b) and b[0] == "Ref" and b[3] in locs:
                uses.append(b[3])
        for v in uses:
            n_inst += 1
            inst = "%s@%d" % (v, y[1] - f["line"])
            acc = []
            governing(f["body"], y, acc)
            if any(v in nulltests(c) for c in acc):
                R.ok(RULE, inst, "%s null-tested in a condition that governs line %d" % (v, y[1]))
            else:
                R.violation(RULE, inst, "`%s` (from the use structure) is dereferenced at line %d without a null test: a MIX that was read but not yet resolved when an earlier "
                            "calculation of the simulation fails makes the error dump crash the process" % (v, y[1]), file=f["file"], line=y[1], function=f["q"])
    if ndecl < 12 or n_inst < 2:
        R.anchor_missing(RULE, "locals taken from use.Get_<kind>_ptr() / Rxn_find: %d (13 confirmed); dereferences: %d (2 confirmed)" % (ndecl, n_inst))
    else:
        R.ok(RULE, "census", "%d locals from the use structure / Rxn_find; those not listed are only passed on" % ndecl)


def boundfirst_rule(P, R):
    """Within one `||` / `&&` chain the operands are evaluated left to right: a subscript `v[i]` must not stand to the LEFT of the
    operand that compares the same `i` with the count / size() of the data (spread_row_to_solution read type_vector[i] and then asked
    `data->count <= i`).  Program-wide over if / while / for conditions; the pairs in the right order are the counted instances."""
    RULE = "C08.boundfirst"
    R.rule(RULE, "in a condition, the comparison of an index with the count / size() stands before the subscript that uses the index", minimum=20)

    def flat(c, op):
        c = T.strip_casts(c)
        while T.is_node(c) and c[0] == "Paren":
            c = T.strip_casts(c[2])
        if T.is_node(c) and c[0] == "Bin" and c[2] == op:
            return flat(c[3], op) + flat(c[4], op)
        return [c]
    good = 0
    for k, g in sorted(P.functions.items(), key=lambda kv: kv[1]["q"]):
        for x in T.walk(g["body"]):
            cond = x[2] if x[0] in ("If", "While") else (x[3] if x[0] == "For" else None)
            if not T.is_node(cond):
                continue
            for op in ("||", "&&"):
                ops = flat(cond, op)
                if len(ops) < 2:
                    continue
                subs, bounds = [], []
                for a, o in enumerate(ops):
                    if not T.is_node(o):
                        continue
                    for y in T.walk(o):
                        ix = None
                        if y[0] == "Index" and len(y) > 3 and T.is_node(y[3]):
                            ix = T.text(y[3], -40)
                        elif y[0] == "Call" and T.callee_name(y) == "operator[]" and len(y[4]) >= 2:
                            ix = T.text(y[4][1], -40)
                        if ix and re.match(r"^\w+$", ix):
                            subs.append((a, ix, y[1]))
                    if o[0] == "Bin" and o[2] in ("<", "<=", ">", ">=", "=="):
                        l_, r_ = T.text(o[3], -40), T.text(o[4], -40)
                        for s_, t_ in ((l_, r_), (r_, l_)):
                            if re.match(r"^\w+$", s_) and re.search(r"count|size\(\)", t_):
                                bounds.append((a, s_))
                for a, ix, line in subs:
                    for b, v in bounds:
                        if v != ix or a == b:
                            continue
                        if b < a:
                            good += 1
                        else:
                            R.violation(RULE, "%s@%d:%s" % (g["q"].split("::")[-1], x[1] - g["line"], ix), "the condition at line %d subscripts with `%s` in operand %d and compares "
                                        "`%s` with the count only in operand %d: a row shorter than expected is read past its end first" % (x[1], ix, a + 1, ix, b + 1),
                                        file=g["file"], line=line, function=g["q"])
    R.table("C08.boundfirst.census", {"bound_before_subscript_pairs": good})
    for _ in range(good):
        R.ok(RULE, "pair", "bound first")
    if good < 20:
        R.anchor_missing(RULE, "only %d bound-then-subscript pairs found (22 on the pinned tree)" % good)


def bracketend_rule(P, R):
    """The two element readers accept `[name]` and loop `while ((c = *cursor) != ']')`.  The loop must look for the end of the text BEFORE
    it stores the character and advances: with `[` as the last character the old loops pushed the terminator, stepped past it and read on
    through whatever follows the token.  Rule: in every `until ]` loop of a get_elt function the first statement of the body is an `if`
    that tests the end (the character against 0, or the cursor against `end`) and leaves the loop or the function."""
    RULE = "C08.bracketend"
    R.rule(RULE, "get_elt: the `until ]` loops test for the end of the text before they store and advance", minimum=2)
    n_inst = 0
    for q in ("CParser::get_elt", "Phreeqc::get_elt"):
        for g in P.fns_named(q):
            for x in T.walk(g["body"]):
                if x[0] != "While" or "!= 93" not in T.text(x[2], -40):
                    continue
                n_inst += 1
                inst = "%s@%d" % (q, x[1] - g["line"])
                body = x[3]
                st = [y for y in (body[2] if body[0] == "Compound" else [body]) if T.is_node(y)]
                first = st[0] if st else None
                ok = (first is not None and first[0] == "If" and (re.search(r"== 0\b", T.text(first[2], -40)) or re.search(r"\bend\b", T.text(first[2], -40)))
                      and any(y[0] in ("Return", "Break") for y in T.walk(first[3])))
                in_cond = re.search(r"!= 0\b", T.text(x[2], -40)) is not None
                if ok or in_cond:
                    R.ok(RULE, inst, "end of text tested first (%s)" % (T.text(first[2], -40)[:40] if ok else "in the loop condition"))
                else:
                    R.violation(RULE, inst, "the loop at line %d stores the character and advances the cursor before any test for the end of the text: `[` as the last character of a "
                                "token makes it step over the terminator and read what follows the token" % x[1], file=g["file"], line=x[1], function=g["q"])
    if n_inst < 2:
        R.anchor_missing(RULE, "only %d `until ]` loops in the get_elt functions" % n_inst)


def mixfind_rule(P, R):
    """The numbers in a MIX block are whatever the user wrote; the solutions need not exist.  Inside every loop over Get_mixComps() a
    pointer taken from Rxn_find(Rxn_solution_map, <component number>) is null-tested in a condition that governs each of its
    dereferences (add_mix reports the missing solution; the other loops run before or after it and must not crash first)."""
    RULE = "C08.mixfind"
    R.rule(RULE, "loops over the components of a MIX null-test the solution they look up before using it", minimum=5)
    n_inst = 0
    for k, g in sorted(P.functions.items(), key=lambda kv: kv[1]["q"]):
        for lp in T.walk(g["body"]):
            if lp[0] != "For" or "Get_mixComps" not in T.text(lp[2], -40) + T.text(lp[3], -40):
                continue
            found = set()
            for t, how, l, x in T.writes(lp[5]):
                if how == "=" and "Rxn_find" in T.text(x[4], -40) and T.is_node(t) and t[0] == "Ref":
                    found.add(t[3])
            for d in T.walk(lp[5]):
                if d[0] == "Decl":
                    for v in d[2]:
                        if len(v) > 2 and T.is_node(v[2]) and "Rxn_find" in T.text(v[2], -40):
                            found.add(v[0])
            for v in sorted(found):
                n_inst += 1
                inst = "%s@%d:%s" % (g["q"].split("::")[-1], lp[1] - g["line"], v)
                bad = None
                for y in T.walk(lp[5]):
                    b = None
                    if y[0] == "Member" and T.is_node(y[3]):
                        b = T.strip_casts(y[3])
                    elif y[0] == "Call" and T.call_obj(y) is not None:
                        b = T.strip_casts(T.call_obj(y))
                    if not (T.is_node(b) and b[0] == "Ref" and b[3] == v):
                        continue
                    acc = []
                    governing(lp[5], y, acc)
                    if not any(v in nulltests(c) for c in acc):
                        bad = y[1]
                        break
                if bad is None:
                    R.ok(RULE, inst, "every use of %s in the loop is governed by its null test" % v)
                else:
                    R.violation(RULE, inst, "`%s` is looked up for a MIX component and dereferenced at line %d without a null test: a MIX that names a solution that does not exist "
                                "crashes the process before add_mix can report it" % (v, bad), file=g["file"], line=bad, function=g["q"])
    if n_inst < 5:
        R.anchor_missing(RULE, "only %d solution look-ups inside loops over Get_mixComps() (6 confirmed)" % n_inst)


def gfwout_rule(P, R):
    """"Not a silent result": the BASIC function GFW hands compute_gfw the address of a local that holds no value and uses the local
    whatever compute_gfw returns (an unbalanced formula is reported with CONTINUE and the program goes on).  So every path of
    compute_gfw to a return has written `*gfw` - or every caller that discards the result initialises its local."""
    RULE = "C08.gfwout"
    R.rule(RULE, "compute_gfw writes its out-parameter on every path to a return (callers use it without looking at the result)", minimum=2)
    f = P.one("Phreeqc::compute_gfw")
    cfg = T.CFG(f)

    def writes_out(n):
        return T.is_node(n) and any(" ".join(T.text(t, -40).split()) in ("*gfw", "* gfw") for t, how, l, x in T.writes(n))
    rets = [i for i, nd in enumerate(cfg.nodes) if T.is_node(nd["n"]) and nd["n"][0] == "Return"]
    callers = []
    for k, g in sorted(P.functions.items(), key=lambda kv: kv[1]["q"]):
        uninit = set()
        for d in T.walk(g["body"]):
            if d[0] == "Decl":
                for v in d[2]:
                    if not (len(v) > 2 and T.is_node(v[2])):
                        uninit.add(v[0])
        for comp in T.walk(g["body"]):
            if comp[0] != "Compound":
                continue
            for st in comp[2]:
                if T.is_node(st) and st[0] == "Call" and T.callee_name(st) == "compute_gfw" and len(st[4]) >= 2:
                    a = T.strip_casts(st[4][1])
                    if T.is_node(a) and a[0] == "Un" and a[2] == "&" and T.is_node(a[3]) and a[3][0] == "Ref" and a[3][3] in uninit:
                        callers.append((g["q"], st[1], a[3][3]))
    if len(rets) < 2:
        R.anchor_missing(RULE, "compute_gfw returns: %d" % len(rets))
        return
    if not callers:
        for i in rets:
            R.ok(RULE, "compute_gfw:return@%d" % (cfg.nodes[i]["line"] - f["line"]), "no caller discards the result while passing a local that holds no value")
        return
    # forward search from the entry that stops at a write of *gfw: a return reached by it is a return without a value
    seen, todo, bad = set(), [cfg.entry], []
    while todo:
        i = todo.pop()
        if i in seen:
            continue
        seen.add(i)
        nd = cfg.nodes[i]
        if writes_out(nd["n"]):
            continue
        if T.is_node(nd["n"]) and nd["n"][0] == "Return":
            bad.append(nd["line"])
            continue
        todo.extend(nd["succ"])
    for i in rets:
        line = cfg.nodes[i]["line"]
        inst = "compute_gfw:return@%d" % (line - f["line"])
        if line in bad:
            q, l, v = callers[0]
            R.violation(RULE, inst, "the return at line %d is reached without a write of *gfw, and %s (line %d) uses its unset local `%s` whatever compute_gfw returns: "
                        "GFW(\"Na(\") punches an uninitialised double" % (line, q, l, v), file=f["file"], line=line, function=f["q"])
        else:
            R.ok(RULE, inst, "*gfw written on every path to line %d" % line)


def strparam_rule(P, R):
    """PBasic::stringexpr(char*) / stringfactor(char*) evaluate a string expression of the running program and strcpy it into the buffer
    the caller passed.  The expression can be of any length (concatenation); where a caller passes a fixed array, the callee tests the
    length against a literal that fits the smallest such array before the copy and leaves through the BASIC error path."""
    RULE = "C08.strparam"
    R.rule(RULE, "PBasic: a program string copied into a caller's fixed array is length-tested first", minimum=1)
    n_inst = 0
    for q in ("PBasic::stringexpr", "PBasic::stringfactor"):
        for f in P.fns_named(q):
            if not f.get("params") or f["params"][0].replace(" ", "") != "char*":
                continue
            copies = [c for c in T.calls(f["body"]) if T.callee_name(c) in ("strcpy", "strcat") and len(c[4]) >= 2]
            if not copies:
                continue
            sizes = []
            for k, g in P.functions.items():
                for c in T.calls(g["body"]):
                    if T.callee_name(c) == q.split("::")[-1] and c[4]:
                        a = T.strip_casts(c[4][0])
                        m = re.match(r"^char ?\[(\d+)\]$", str(a[4])) if T.is_node(a) and a[0] == "Ref" else None
                        if m:
                            sizes.append((int(m.group(1)), g["q"], c[1]))
            n_inst += 1
            inst = q.split("::")[-1] + "(char*)"
            if not sizes:
                R.ok(RULE, inst, "no caller passes a fixed array")
                continue
            small = min(sizes)
            for c in copies:
                src = " ".join(T.text(c[4][1], -40).split())
                ok = False
                for x in T.walk(f["body"]):
                    if x[0] == "If" and x[1] < c[1] and any(T.callee_name(k) in ("tmerr", "errormsg", "snerr") or k[0] == "Throw" for k in list(T.calls(x[3])) + [y for y in T.walk(x[3]) if y[0] in ("Throw", "Return")]):
                        for b in T.walk(x[2]):
                            if b[0] == "Bin" and b[2] in (">", ">=") and "strlen" in T.text(b[3], -40) and src in " ".join(T.text(b[3], -40).split()):
                                lim = T.lit_value(T.strip_casts(b[4]))
                                if lim is not None and (lim < small[0] if b[2] == ">" else lim <= small[0]):
                                    ok = True
                if ok:
                    R.ok(RULE, inst, "strlen(%s) tested against the %d-character array of %s before the copy" % (src, small[0], small[1]))
                else:
                    R.violation(RULE, inst, "%s copies `%s` with %s into the caller's buffer; %s (line %d) passes char[%d] and no length test precedes the copy: a string "
                                "expression built by concatenation overruns the stack array" % (q, src, T.callee_name(c), small[1], small[2], small[0]),
                                file=f["file"], line=c[1], function=f["q"])
    if n_inst < 1:
        R.anchor_missing(RULE, "stringexpr(char*) / stringfactor(char*) with a strcpy not found")


IMMEDIATE_EXEMPT = {
    # function:member -> why the member cannot be NULL there
    "PBasic::cmdrestore:dataline": "assigned two lines above from mustfindline(), which ends in `Undefined line n` instead of returning NULL under the same "
                                   "phreeqci_gui / parse_whole_program conditions as the dereference",
}


def immediate_rule(P, R):
    """A BASIC statement without a line number is executed at once while the program is compiled: stmtline is NULL, and linebase /
    dataline are NULL when nothing numbered precedes it.  Every dereference of these three members in PBasic is governed by a null test
    of the member: its own condition (also of a ?: expression), an enclosing if / loop condition, or an `if` that precedes it in an
    enclosing statement list."""
    RULE = "C08.immediate"
    R.rule(RULE, "PBasic: stmtline / linebase / dataline are null-tested before they are dereferenced (statements without a line number)", minimum=30)
    n_inst = 0
    for k, g in sorted(P.functions.items(), key=lambda kv: kv[1]["q"]):
        if not g["q"].startswith("PBasic::"):
            continue
        for y in T.walk(g["body"]):
            if not (y[0] == "Member" and T.is_node(y[3])):
                continue
            b = T.strip_casts(y[3])
            if not (T.is_node(b) and b[0] == "Member" and b[2].split("::")[-1] in ("stmtline", "linebase", "dataline") and T.is_node(b[3]) and b[3][0] == "This"):
                continue
            m = b[2].split("::")[-1]
            n_inst += 1
            inst = "%s@%d:%s" % (g["q"].split("::")[-1], y[1] - g["line"], m)
            acc = []
            governing(g["body"], y, acc)
            tested = set()
            for c in acc:
                tested |= nulltests(c)
                for u in T.walk(c):
                    if u[0] == "Un" and u[2] == "!" :
                        tested.add(_norm40(u[3]))
            if any(t.split(".")[-1] == m or t == m for t in tested):
                R.ok(RULE, inst, "%s null-tested in a condition that governs line %d" % (m, y[1]))
            elif "%s:%s" % (g["q"], m) in IMMEDIATE_EXEMPT:
                R.ok(RULE, inst, "exempt: " + IMMEDIATE_EXEMPT["%s:%s" % (g["q"], m)])
            else:
                R.violation(RULE, inst, "`%s->%s` at line %d has no null test of %s governing it: a statement without a line number runs with %s == NULL and crashes here"
                            % (m, y[2].split("::")[-1], y[1], m, m), file=g["file"], line=y[1], function=g["q"])
    if n_inst < 30:
        R.anchor_missing(RULE, "only %d dereferences of stmtline / linebase / dataline in PBasic (36 confirmed)" % n_inst)


def ssparams_rule(P, R):
    """read_solid_solutions stores as many parameters as the option line held and reports a wrong count with CONTINUE; tidy runs before
    the input-error stop.  ss_calc_a0_a1 copies the vector into `p` and subscripts it with literals: before the first subscript the
    function guarantees the length (a resize to, or a size test against, at least the largest literal subscript + 1)."""
    RULE = "C08.ssparams"
    R.rule(RULE, "ss_calc_a0_a1: the parameter vector is brought to the length its literal subscripts need before the first subscript", minimum=1)
    f = P.one("Phreeqc::ss_calc_a0_a1")
    subs = []
    for y in T.walk(f["body"]):
        if y[0] == "Call" and T.callee_name(y) == "operator[]" and len(y[4]) >= 2 and T.text(y[4][0], -40) == "p":
            v = T.lit_value(T.strip_casts(y[4][1]))
            if v is not None:
                subs.append((y[1], int(v)))
    if len(subs) < 10:
        R.anchor_missing(RULE, "only %d literal subscripts of p in ss_calc_a0_a1" % len(subs))
        return
    first = min(l for l, v in subs)
    need = max(v for l, v in subs) + 1
    ok = None
    for y in T.walk(f["body"]):
        if y[1] > first:
            continue
        if y[0] == "Call" and T.callee_name(y) in ("resize", "assign") and T.call_obj(y) is not None and T.text(T.call_obj(y), -40) == "p" and y[4]:
            v = T.lit_value(T.strip_casts(y[4][0]))
            if v is not None and v >= need:
                ok = "p.%s(%d) at line %d" % (T.callee_name(y), v, y[1])
        if y[0] == "If" and any(k[0] in ("Return", "Throw") for k in T.walk(y[3])):
            for b in T.walk(y[2]):
                if b[0] == "Bin" and b[2] in ("<", "<=", "!=") and "p.size()" in T.text(b[3], -40).replace("this.", ""):
                    v = T.lit_value(T.strip_casts(b[4]))
                    if v is not None and v >= need - (1 if b[2] == "<=" else 0):
                        ok = "size test at line %d leaves the function" % y[1]
    if ok:
        R.ok(RULE, "p[0..%d]" % (need - 1), "%s; %d literal subscripts from line %d" % (ok, len(subs), first))
    else:
        R.violation(RULE, "p[0..%d]" % (need - 1), "ss_calc_a0_a1 subscripts its copy of the parameter vector up to p[%d] (first at line %d) without bringing it to that length: "
                    "`-miscibility_gap` without numbers is reported with CONTINUE and crashes here" % (need - 1, first), file=f["file"], line=first, function=f["q"])
