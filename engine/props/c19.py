"""C19 – gas phases obey their equation of state and fugacity-based equilibrium.

The property as a whole is numerical and is NOT decided.  The Peng-Robinson part of it is written in Phreeqc::calc_PR as a set
of closed-form assignments; those are decided by exact rational-function comparison (engine/ratfun.py; sqrt/log/exp kept as
opaque functions of canonicalised arguments, pow(x, 2) expanded, locals NOT inlined: each assignment is compared in the
function's own symbols):
  C19.params   per-gas constants  a = 0.457235 (R Tc)^2 / Pc,  b = 0.077796 R Tc / Pc,  kappa = 0.37464 + 1.54226 w - 0.26992 w^2,
               alpha = (1 + kappa (1 - sqrt(Tr)))^2,  Tr = T / Tc  (every site; literals matched by value to 2e-4 relative)
  C19.mixing   van der Waals one-fluid mixing: b_sum += x_i b_i,  a_ij = sqrt(a_i alpha_i a_j alpha_j) (times the binary
               parameter),  a_aa_sum += x_i x_j a_ij,  a_aa_sum2 += x_j a_ij,  x_i = n_i / n_total
               ; a_ij is in the scaled state (after `a_aa *= k-factor`) at every accumulation into a_aa_sum and a_aa_sum2, on every
               path (may-dataflow over the CFG of both overloads): pressure and fugacity coefficients use the same a_ij
  C19.eos      every evaluation of the pressure is  R T/(V - b) - a/(V (V + 2 b) - b^2)  with b2 = b_sum^2, and the cubic in V
               solved for the molar volume is THE SAME equation: (V^3 + r1 V^2 + r2 V + r3) P is identically
               P (V - b)(V^2 + 2 b V - b^2) - R T (V^2 + 2 b V - b^2) + a (V - b)   (a polynomial identity between two pieces
               of code, no reference constants involved)
  C19.cache    the cached alpha(T) of a gas (phase::pr_alpha, valid for phase::pr_tk) is refreshed under a test of that same gas's own cache
               state; the cache is shared by all calculations of an instance, so a hoisted or borrowed test leaves a stale alpha
  C19.phi      ln phi_i = B_r (z - 1) - ln(z - B) + A/(2 sqrt2 B) (B_r - 2 a_aa_sum2_i / a_aa_sum) ln((z + (1+sqrt2) B)/(z - (sqrt2-1) B)),
               z = P V/(R T), A = a P/(R T)^2, B = b P/(R T), B_r = b_i / b_sum; partial pressure = x_i P; phi = exp(ln phi);
               the SI correction is ln phi / ln 10; the clamp constants are ln 85 and ln 0.01
  C19.kij      the binary interaction parameter is symmetric in the two gases (the mixing rule a_aa_sum = sum_i sum_j x_i x_j a_ij
               and the fugacity term a_aa_sum2 assume a_ij = a_ji): every store into the user table writes both key orders
               with the same value (or the look-up tries both orders), and the built-in fallback table of
               calc_gas_binary_parameter has mirror-image blocks for (H2O, X) and (X, H2O)
  C19.quick    "the same relations hold for gases used as EQUILIBRIUM_PHASES": the fast path quick_setup resets every pure-phase
               target SI to the raw request; the Peng-Robinson correction (adjust_setup_pure_phases) must follow unconditionally
               as a statement of quick_setup itself - not only when a GAS_PHASE is present - or from the second step on such a
               gas is held at SI = target instead of log10(phi P)
Not decided: ideal-gas relations, fixed-pressure existence rule, the root selected in the two-phase region, fugacity = 10^SI,
gases in EQUILIBRIUM_PHASES (numerical / solver outcome).
"""
import math
from fractions import Fraction

from .. import tree as T
from .. import ratfun as RF

PROP = "C19"
EXPLANATION = __doc__

CONSTS = {"K_A": 0.457235, "K_B": 0.077796, "K0": 0.37464, "K1": 1.54226, "K2": 0.26992,
          "TWO_SQRT2": 2 * math.sqrt(2), "ONE_PLUS_SQRT2": 1 + math.sqrt(2), "SQRT2_MINUS_ONE": math.sqrt(2) - 1}


class Conv:
    def __init__(self, named=True):
        self.opaque = []      # (fn, Rat arg, symbol)
        self.named = named

    def op(self, fn, arg):
        for f_, a_, s_ in self.opaque:
            if f_ == fn and a_.same(arg):
                return RF.Rat.sym(s_)
        s_ = "%s<%d>" % (fn, len(self.opaque))
        self.opaque.append((fn, arg, s_))
        return RF.Rat.sym(s_)

    def lit(self, n):
        txt = str(n[3]).rstrip("fFlL")
        v = float(txt)
        if self.named and n[2] == "float":
            for k, c in CONSTS.items():
                if abs(v - c) <= 2e-4 * abs(c):
                    return RF.Rat.sym(k)
        return RF.Rat.const(Fraction(txt))

    def conv(self, n):
        n = T.strip_casts(n)
        if not T.is_node(n):
            raise RF.NotRational("empty")
        if n[0] == "Lit":
            return self.lit(n)
        if n[0] == "Index":
            return RF.Rat.sym(T.text(n).replace(" ", ""))
        if n[0] == "Ref" and n[2] in ("local", "param"):
            return RF.Rat.sym(n[3])
        if n[0] == "Member":
            return RF.Rat.sym(n[2].split("::")[-1] + ("@" + T.text(n[3]).split(".")[-1] if T.is_node(n[3]) and T.strip_casts(n[3])[0] == "Ref" else ""))
        if n[0] == "Un" and n[2] in ("-", "+"):
            v = self.conv(n[3])
            return -v if n[2] == "-" else v
        if n[0] == "Bin" and n[2] in ("+", "-", "*", "/"):
            a, b = self.conv(n[3]), self.conv(n[4])
            return a + b if n[2] == "+" else a - b if n[2] == "-" else a * b if n[2] == "*" else a / b
        if n[0] == "Call":
            nm = T.callee_name(n)
            if nm == "pow" and len(n[4]) == 2:
                e = T.strip_casts(n[4][1])
                if e[0] == "Lit" and str(e[3]).rstrip(".0fFlL") in ("2", "3") or (e[0] == "Lit" and float(str(e[3]).rstrip("fFlL")) in (2.0, 3.0)):
                    k = int(float(str(e[3]).rstrip("fFlL")))
                    b = self.conv(n[4][0])
                    r = RF.Rat.const(1)
                    for _ in range(k):
                        r = r * b
                    return r
            if nm in ("sqrt", "log", "exp", "log10") and len(n[4]) == 1:
                return self.op(nm, self.conv(n[4][0]))
            if n[4] is not None and nm in ("calc_gas_binary_parameter",):
                return RF.Rat.sym("kij")
        raise RF.NotRational("%s %s" % (n[0], T.text(n)[:50]))

    def ref(self, text, **ops):
        """reference from text; names in ops are replaced by opaque applications: ops = {name: (fn, reference text of arg)}"""
        r = RF.parse(text)
        return r


def assignments(f, name, member=False):
    out = []
    for x in T.walk(f["body"]):
        if x[0] == "Bin" and x[2] in T.ASSIGN_OPS:
            t = T.strip_casts(x[3])
            if member and t[0] == "Member" and t[2].split("::")[-1] == name:
                out.append(x)
            if not member and t[0] in ("Ref",) and t[3] == name:
                out.append(x)
            if not member and t[0] == "Index" and T.text(t).replace(" ", "") == name:
                out.append(x)
    return out


def run(P, R, tier):
    R.undecided += ["ideal-gas relations and the fixed-pressure existence rule (numerical)", "choice of root in the two-phase region of the cubic",
                    "fugacity = 10^SI, gases used as EQUILIBRIUM_PHASES (solver outcome)"]
    fs = sorted(P.fns_named("Phreeqc::calc_PR"), key=lambda g: len(g["pnames"]))
    if len(fs) != 2:
        from ..facts import AnalysisBroken
        raise AnalysisBroken("expected the two overloads of Phreeqc::calc_PR (gas-phase unknowns / explicit phase list), found %d" % len(fs))
    R.rule("C19.params", "Peng-Robinson constants a, b, kappa, alpha, Tr are the defining expressions", minimum=14)
    R.rule("C19.mixing", "one-fluid mixing rules: b_sum, a_ij, a_aa_sum, a_aa_sum2, mole fractions", minimum=10)
    R.rule("C19.eos", "pressure evaluations are the Peng-Robinson equation and the cubic solved for V is the same equation", minimum=8)
    R.rule("C19.phi", "fugacity coefficient, compressibility, A, B, B_r, partial pressure and SI correction are the defining expressions", minimum=14)
    for f in fs:
        one_overload(P, R, f, "PR%d:" % (4 if f["pnames"] else 0))   # tags name the two overloads: gas-phase unknowns (0) / explicit phase list (4)
    kij_rule(P, R)
    cache_rule(P, R)
    cachereset_rule(P, R)
    prfallback_rule(P, R)
    gasdup_rule(P, R)
    savedvolume_rule(P, R)
    absentgas_rule(P, R)
    quick_rule(P, R)
    prtemp_rule(P, R)
    vmowner_rule(P, R)


def quick_rule(P, R):
    R.rule("C19.quick", "quick_setup re-applies the Peng-Robinson SI correction unconditionally after resetting the pure-phase targets", minimum=1)
    f = P.one("Phreeqc::quick_setup")
    top = [s_ for s_ in f["body"][2] if T.is_node(s_)]
    reset = [i for i, s_ in enumerate(top) if any(w[0] == "Bin" and w[2] == "=" and T.strip_casts(w[3])[0] == "Member" and T.strip_casts(w[3])[2] == "unknown::si" for w in T.walk(s_))]
    adj_top = [i for i, s_ in enumerate(top) if s_[0] == "Call" and T.callee_name(s_) == "adjust_setup_pure_phases"]
    adj_any = [c for c in T.calls(f["body"]) if T.callee_name(c) == "adjust_setup_pure_phases"]
    if not reset:
        R.anchor_missing("C19.quick", "quick_setup: the loop that resets unknown::si was not found")
        return
    if adj_top and min(adj_top) > max(reset):
        R.ok("C19.quick", "quick_setup", "adjust_setup_pure_phases() is an unconditional statement after the reset of the targets")
    elif adj_any:
        R.violation("C19.quick", "quick_setup", "adjust_setup_pure_phases() (line %d) is conditional or precedes the reset of the target SIs: on the fast path a Peng-Robinson gas in "
                    "EQUILIBRIUM_PHASES is held at the raw target SI (phi = 1)" % adj_any[0][1], file=f["file"], line=adj_any[0][1], function=f["q"])
    else:
        R.violation("C19.quick", "quick_setup", "quick_setup no longer re-applies the Peng-Robinson SI correction", file=f["file"], line=f["line"], function=f["q"])


def cache_rule(P, R):
    """"the reported state satisfies the equation of state AT THE REPORTED TEMPERATURE": each gas caches its temperature term alpha(T)
    (phase::pr_alpha) together with the temperature it was computed for (phase::pr_tk); the cache lives in the phase and is shared by all
    calculations of the instance.  Every (re)computation of pr_alpha in calc_PR is guarded by a test of the SAME phase's own cache state
    (its pr_a still unset, or its pr_tk different from TK) - a test hoisted out of the component loop or taken from another component
    leaves a component with the alpha of an earlier temperature."""
    RULE = "C19.cache"
    R.rule(RULE, "calc_PR: every refresh of a gas's cached alpha(T) is guarded by that same gas's own cache state (pr_a unset / pr_tk != TK)", minimum=4)
    fs = [g for g in P.fns_named("Phreeqc::calc_PR") if g.get("body")]
    n = 0
    for f in fs:
        tag = "PR%d" % (4 if f["pnames"] else 0)
        # map every assignment of pr_alpha to its innermost enclosing If
        def visit(node, guards):
            nonlocal n
            if not T.is_node(node):
                return
            if node[0] == "If":
                visit(node[3], guards + [node])
                if T.is_node(node[4]):
                    visit(node[4], guards)
                return
            if node[0] == "Bin" and node[2] == "=" and T.strip_casts(node[3])[0] == "Member" and T.strip_casts(node[3])[2] == "phase::pr_alpha":
                n += 1
                base = T.text(T.strip_casts(node[3])[3]).replace(" ", "")
                inst = "%s:pr_alpha@%d" % (tag, node[1])
                ok = False
                if guards:
                    g = guards[-1]
                    for y in T.walk(g[2]):
                        if y[0] == "Member" and y[2] in ("phase::pr_a", "phase::pr_tk") and T.text(y[3]).replace(" ", "") == base:
                            ok = True
                if ok:
                    R.ok(RULE, inst, "guarded by %s's own cache state" % base)
                else:
                    R.violation(RULE, inst, "the refresh of %s->pr_alpha is guarded by `%s`, which does not test %s's own cached temperature: a component whose cache is older than the one "
                                "tested keeps the alpha of an earlier temperature, so P, V and phi no longer satisfy the equation of state at the reported T"
                                % (base, T.text(guards[-1][2])[:50] if guards else "nothing", base), file=f["file"], line=node[1], function=f["q"])
                return
            for c in node[2:]:
                if isinstance(c, list):
                    if c and isinstance(c[0], str):
                        visit(c, guards)
                    else:
                        for cc in c:
                            if isinstance(cc, list) and cc and isinstance(cc[0], str):
                                visit(cc, guards)
        visit(f["body"], [])
    if n < 4:
        R.anchor_missing(RULE, "only %d assignments of phase::pr_alpha found in the calc_PR overloads (4 confirmed)" % n)


def kij_rule(P, R):
    from .. import shape as SH
    R.rule("C19.kij", "binary interaction parameters are symmetric: both key orders stored (or looked up), mirror-image fallback blocks", minimum=2)
    stores = []
    for key, f in sorted(P.functions.items()):
        for x in T.walk(f["body"]):
            if x[0] == "Bin" and x[2] == "=":
                t = T.strip_casts(x[3])
                if t[0] == "Call" and T.callee_name(t) == "operator[]" and any(y[0] == "Member" and y[2] == "Phreeqc::gas_binary_parameters" for y in T.walk(t)):
                    mk = [c for c in T.calls(t) if T.callee_name(c) == "make_pair"]
                    if mk:
                        stores.append((f, x, tuple(T.text(a).replace(" ", "") for a in mk[0][4]), T.text(x[4])))
    look = P.one("Phreeqc::calc_gas_binary_parameter")
    finds = [c for c in T.calls(look["body"]) if T.callee_name(c) == "find"]
    if not stores:
        R.anchor_missing("C19.kij", "no store into gas_binary_parameters found")
    else:
        byf = {}
        for f, x, keyp, val in stores:
            byf.setdefault(f["q"], []).append((keyp, val, x[1], f))
        for q, lst in sorted(byf.items()):
            for keyp, val, line, f in lst:
                mirror = [l for l in lst if l[0] == tuple(reversed(keyp)) and l[1] == val]
                inst = "%s:store(%s,%s)" % (q.split("::")[-1], keyp[0], keyp[1])
                if mirror or len(finds) >= 2:
                    R.ok("C19.kij", inst, "mirror key stored with the same value" if mirror else "look-up tries both orders")
                else:
                    R.violation("C19.kij", inst, "the parameter is stored under (%s, %s) only and the look-up uses the ordered key: a_ij != a_ji for a pair given in the other order "
                                "and the reported P, V, phi no longer satisfy the equation of state with the supplied k_ij" % keyp, file=f["file"], line=line, function=f["q"])
    # fallback blocks
    p1, p2 = look["pnames"][:2]
    blocks = {}
    for x in T.walk(look["body"]):
        if x[0] == "If":
            c = T.strip_casts(x[2])
            txt = T.text(c)
            if "H2O(g)" in txt and T.is_node(x[3]) and any(y[0] == "If" for y in T.walk(x[3])):
                who = [y[3] for y in T.walk(c) if y[0] == "Ref" and y[2] == "param"]
                if len(set(who)) == 1:
                    blocks[who[0]] = x
    if len(blocks) == 2 and p1 in blocks and p2 in blocks:
        a = SH.shape(blocks[p1], {p1: "#A", p2: "#B"})
        b = SH.shape(blocks[p2], {p2: "#A", p1: "#B"})
        if a == b:
            R.ok("C19.kij", "fallback:mirror", "the (H2O, X) and (X, H2O) blocks are mirror images")
        else:
            R.violation("C19.kij", "fallback:mirror", "the built-in (H2O, X) and (X, H2O) tables differ at %s" % (SH.first_difference(a, b),), file=look["file"], line=blocks[p2][1], function=look["q"])
    else:
        R.anchor_missing("C19.kij", "calc_gas_binary_parameter: the two built-in H2O(g) blocks not found")


def one_overload(P, R, f, tag):
    S = RF.Rat.sym
    where = dict(file=f["file"], function=f["q"])

    def check(rule, inst, node, want_builder, describe):
        inst = tag + inst
        cv = Conv()
        try:
            got = cv.conv(node[4])
            want = want_builder(cv)
        except (RF.NotRational, ZeroDivisionError, ValueError) as e:
            R.violation(rule, inst, "`%s` is not the %s (%s)" % (T.text(node[4])[:120], describe, e), line=node[1], **where)
            return
        if got.same(want):
            R.ok(rule, inst, describe)
            return
        miss = RF.unknown_reference_symbols(want, f["body"], ignore=tuple(CONSTS) + ("kij", "sqrt", "log", "exp"))
        if miss:
            R.anchor_missing(rule, "%s: the reference formula names %s which no longer occur in %s (renamed?)" % (inst, miss, f["q"]))
            return
        R.violation(rule, inst, "`%s %s %s` is not %s" % (T.text(node[3])[:30], node[2], T.text(node[4])[:160], describe), line=node[1], **where)

    # ------------------------------------------------------------------ per-gas constants
    pa = assignments(f, "pr_a", member=True)
    pb = assignments(f, "pr_b", member=True)
    kk = assignments(f, "kk")
    al = assignments(f, "pr_alpha", member=True)
    tr = assignments(f, "T_r")
    if not (pa and pb and kk and al and tr):
        R.anchor_missing("C19.params", "calc_PR: assignments of pr_a / pr_b / kk / pr_alpha / T_r not all found")
    for i, x in enumerate(pa):
        check("C19.params", "a@%d" % x[1], x, lambda cv: RF.parse("K_A*R*R*T_c*T_c/P_c"), "a = 0.457235 (R Tc)^2 / Pc")
    for x in pb:
        check("C19.params", "b@%d" % x[1], x, lambda cv: RF.parse("K_B*R*T_c/P_c"), "b = 0.077796 R Tc / Pc")
    for x in kk:
        check("C19.params", "kappa@%d" % x[1], x, lambda cv: RF.parse("K0 + K1*oo - K2*oo*oo"), "kappa = 0.37464 + 1.54226 w - 0.26992 w^2")
    for x in al:
        def want(cv):
            sq = cv.op("sqrt", S("T_r"))
            base = RF.Rat.const(1) + S("kk") * (RF.Rat.const(1) - sq)
            return base * base
        check("C19.params", "alpha@%d" % x[1], x, want, "alpha = (1 + kappa (1 - sqrt(Tr)))^2")
    for x in tr:
        cv = Conv()
        try:
            got = cv.conv(x[4])
        except RF.NotRational:
            got = None
        # TK / T_c  or  TK / phase_ptr->t_c
        okk = got is not None and len(got.symbols()) == 2 and "TK" in got.symbols() and got.same(S("TK") / S([s_ for s_ in got.symbols() if s_ != "TK"][0])) and \
            any(s_.lower().startswith("t_c") for s_ in got.symbols())
        if okk:
            R.ok("C19.params", tag + "Tr@%d" % x[1], "Tr = T / Tc")
        else:
            R.violation("C19.params", tag + "Tr@%d" % x[1], "`T_r = %s` is not T / Tc" % T.text(x[4])[:60], line=x[1], **where)
    # omega
    for x in assignments(f, "oo"):
        if T.text(x[4]).endswith("omega"):
            R.ok("C19.params", tag + "omega@%d" % x[1], "acentric factor")
        else:
            R.violation("C19.params", tag + "omega@%d" % x[1], "`oo = %s` is not the acentric factor" % T.text(x[4])[:40], line=x[1], **where)

    # ------------------------------------------------------------------ mixing rules
    for x in assignments(f, "b_sum", member=True) + assignments(f, "b_sum"):
        if x[2] == "+=":
            check("C19.mixing", "b_sum@%d" % x[1], x, lambda cv: RF.parse("fraction_x@phase_ptr*pr_b@phase_ptr"), "b_sum += x_i b_i")
    for x in assignments(f, "a_aa"):
        if x[2] == "=":
            def want(cv):
                return cv.op("sqrt", RF.parse("pr_a@phase_ptr*pr_alpha@phase_ptr*pr_a@phase_ptr1*pr_alpha@phase_ptr1"))
            check("C19.mixing", "a_ij@%d" % x[1], x, want, "a_ij = sqrt(a_i alpha_i a_j alpha_j)")
        elif x[2] == "*=":
            check("C19.mixing", "k_ij@%d" % x[1], x, lambda cv: S("kij"), "a_ij scaled by the binary interaction parameter only")
        else:
            R.violation("C19.mixing", tag + "a_ij@%d" % x[1], "unexpected update of a_ij", line=x[1], **where)
    for x in assignments(f, "a_aa_sum", member=True) + assignments(f, "a_aa_sum"):
        if x[2] == "+=":
            check("C19.mixing", "a_aa_sum@%d" % x[1], x, lambda cv: RF.parse("fraction_x@phase_ptr*fraction_x@phase_ptr1*a_aa"), "a_aa_sum += x_i x_j a_ij")
    for x in assignments(f, "a_aa_sum2"):
        if x[2] == "+=":
            check("C19.mixing", "a_aa_sum2@%d" % x[1], x, lambda cv: RF.parse("fraction_x@phase_ptr1*a_aa"), "a_aa_sum2 += x_j a_ij")
    # the pair parameter reaches BOTH sums scaled by (1 - k_ij): may-dataflow of the state of a_aa over the CFG
    cfg = T.CFG(f)

    def is_a_aa(t):
        t = T.strip_casts(t)
        return t[0] == "Ref" and t[3] == "a_aa"

    def transfer(node, st):
        n = node["n"]
        if T.is_node(n) and n[0] == "Bin" and n[2] in T.ASSIGN_OPS and is_a_aa(n[3]):
            if n[2] == "=":
                return frozenset(["raw"])
            if n[2] == "*=":
                return frozenset(["scaled"])          # that the factor is the pair parameter is instance k_ij@ above
        return st
    ins = cfg.dataflow(transfer, ["undefined"])
    for node in cfg.nodes:
        n = node["n"]
        if not (T.is_node(n) and n[0] == "Bin" and n[2] == "+=" and any(is_a_aa(y) for y in T.walk(n[4]) if T.is_node(y) and y[0] == "Ref")):
            continue
        st = ins.get(node["id"])
        if st is None:
            continue
        inst = tag + "scaled:%s@%d" % (T.text(n[3])[:12].replace(" ", ""), n[1])
        if st == frozenset(["scaled"]):
            R.ok("C19.mixing", inst, "a_ij carries the binary interaction parameter when it is accumulated")
        else:
            R.violation("C19.mixing", inst, "`%s += ...` accumulates a_ij before (or on a path without) the scaling by the binary interaction parameter (state %s): the mixture a "
                        "used for the pressure and the per-component sum used for the fugacity coefficient stop describing the same equation of state"
                        % (T.text(n[3])[:20], "/".join(sorted(st))), line=n[1], **where)

    for x in assignments(f, "fraction_x", member=True):
        if T.strip_casts(x[4])[0] == "Lit" and float(str(T.strip_casts(x[4])[3])) == 1.0:
            R.ok("C19.mixing", tag + "x_i@%d" % x[1], "single gas: x = 1")
            continue
        cv = Conv()
        try:
            got = cv.conv(x[4])
            okk = got.same(S([s_ for s_ in got.symbols() if s_.startswith("moles")][0]) / S("m_sum"))
        except (RF.NotRational, IndexError):
            okk = False
        if okk:
            R.ok("C19.mixing", tag + "x_i@%d" % x[1], "x_i = n_i / n_total")
        else:
            R.violation("C19.mixing", tag + "x_i@%d" % x[1], "`fraction_x = %s` is not n_i / n_total" % T.text(x[4])[:60], line=x[1], **where)

    # ------------------------------------------------------------------ equation of state and its cubic
    b2 = assignments(f, "b2", member=True) + assignments(f, "b2")
    for x in b2:
        check("C19.eos", "b2@%d" % x[1], x, lambda cv: RF.parse("b_sum*b_sum"), "b2 = b_sum^2")
    if not b2:
        R.anchor_missing("C19.eos", "calc_PR: b2 = b_sum * b_sum not found")
    nP = 0
    for x in assignments(f, "P"):
        if x[2] != "=":
            continue
        cv = Conv()
        try:
            got = cv.conv(x[4])
        except RF.NotRational:
            continue
        if "R_TK" not in got.symbols():
            continue          # P = 0.0, P = 1., P = Get_total_p()
        vs = [s_ for s_ in got.symbols() if s_ in ("V_m", "v1")]
        if len(vs) != 1:
            R.violation("C19.eos", tag + "P@%d" % x[1], "pressure evaluated from %s" % sorted(got.symbols()), line=x[1], **where)
            continue
        nP += 1
        want = RF.parse("R_TK/(V - b_sum) - a_aa_sum/(V*(V + 2*b_sum) - b2)".replace("V", vs[0]))
        if got.same(want):
            R.ok("C19.eos", tag + "P@%d" % x[1], "P = R T/(V - b) - a/(V (V + 2 b) - b^2)")
        else:
            R.violation("C19.eos", tag + "P@%d" % x[1], "`P = %s` is not the Peng-Robinson equation R T/(V - b) - a/(V (V + 2 b) - b^2)" % T.text(x[4])[:140], line=x[1], **where)
    if nP < 2:
        R.anchor_missing("C19.eos", "calc_PR: fewer than 2 pressure evaluations found")
    # cubic coefficient sets: consecutive r3[1], r3[2], r3[3] assignments
    r1s, r2s, r3s = assignments(f, "r3[1]"), assignments(f, "r3[2]"), assignments(f, "r3[3]")
    if not (len(r1s) == len(r2s) == len(r3s) and r1s):
        R.anchor_missing("C19.eos", "calc_PR: cubic coefficients r3[1..3] not found in matching sets")
    for a1, a2, a3 in zip(r1s, r2s, r3s):
        cv = Conv()
        try:
            c1, c2, c3 = cv.conv(a1[4]), cv.conv(a2[4]), cv.conv(a3[4])
        except RF.NotRational as e:
            R.violation("C19.eos", tag + "cubic@%d" % a1[1], "cubic coefficient not rational (%s)" % e, line=a1[1], **where)
            continue
        # substitute b2 = b_sum^2 in the code's own coefficients
        def sub(r):
            return r.subst_pow("b2", "b_sum", 2)
        V, Pp = S("V"), S("P")
        lhs = (V * V * V + sub(c1) * V * V + sub(c2) * V + sub(c3)) * Pp
        b, a, rt = S("b_sum"), S("a_aa_sum"), S("R_TK")
        quad = V * V + RF.Rat.const(2) * b * V - b * b
        rhs = Pp * (V - b) * quad - rt * quad + a * (V - b)
        if lhs.same(rhs):
            R.ok("C19.eos", tag + "cubic@%d" % a1[1], "V^3 + r1 V^2 + r2 V + r3 = 0 is the pressure equation multiplied out")
        else:
            R.violation("C19.eos", tag + "cubic@%d" % a1[1], "the cubic solved for the molar volume (r3[1..3] at lines %d-%d) is not the Peng-Robinson pressure equation multiplied out: "
                        "volume and pressure would not satisfy the same equation of state" % (a1[1], a3[1]), line=a1[1], **where)

    # ------------------------------------------------------------------ fugacity coefficient
    simple = {"rz": ("P*V_m/R_TK", "z = P V/(R T)"), "A": ("a_aa_sum*P/(R_TK*R_TK)", "A = a P/(R T)^2"), "B": ("b_sum*P/R_TK", "B = b P/(R T)"),
              "B_r": ("pr_b@phase_ptr/b_sum", "B_r = b_i / b_sum")}
    # only the assignments inside the fugacity loop (after the last Set_v_m): take the LAST assignment of each
    for nm, (txt, desc) in simple.items():
        xs = [x for x in assignments(f, nm) if x[2] == "="]
        xs = [x for x in xs if "R_TK" in T.text(x[4]) or nm == "B_r"]
        if not xs:
            R.anchor_missing("C19.phi", "calc_PR: assignment of %s not found" % nm)
            continue
        x = xs[-1]
        check("C19.phi", "%s@%d" % (nm, x[1]), x, lambda cv, txt=txt: RF.parse(txt), desc)
    phis = [x for x in assignments(f, "phi") if x[2] == "=" and any(T.callee_name(c) == "log" for c in T.calls(x[4]))]
    if len(phis) != 1:
        R.anchor_missing("C19.phi", "calc_PR: expected one ln phi formula, found %d" % len(phis))
    for x in phis:
        def want(cv):
            z, A, B, Br = S("rz"), S("A"), S("B"), S("B_r")
            l1 = cv.op("log", z - B)
            l2 = cv.op("log", (z + S("ONE_PLUS_SQRT2") * B) / (z - S("SQRT2_MINUS_ONE") * B))
            return Br * (z - RF.Rat.const(1)) - l1 + A / (S("TWO_SQRT2") * B) * (Br - RF.Rat.const(2) * S("pr_aa_sum2@phase_ptr") / S("a_aa_sum")) * l2
        check("C19.phi", "lnphi@%d" % x[1], x, want, "ln phi = B_r (z-1) - ln(z-B) + A/(2 sqrt2 B) (B_r - 2 a_aa_sum2/a_aa_sum) ln((z+(1+sqrt2)B)/(z-(sqrt2-1)B))")
    for x in assignments(f, "pr_p", member=True):
        if T.lit_value(x[4]) == 0:
            continue
        check("C19.phi", "p_i@%d" % x[1], x, lambda cv: RF.parse("fraction_x@phase_ptr*P"), "partial pressure = x_i P")
    for x in assignments(f, "pr_phi", member=True):
        if T.strip_casts(x[4])[0] == "Lit":
            continue
        check("C19.phi", "phi@%d" % x[1], x, lambda cv: cv.op("exp", S("phi")), "phi = exp(ln phi)")
    for x in assignments(f, "pr_si_f", member=True):
        if T.strip_casts(x[4])[0] == "Lit":
            continue
        check("C19.phi", "si_f@%d" % x[1], x, lambda cv: S("phi") / S("LOG_10"), "SI correction = ln phi / ln 10")
    # clamp constants: ln 85 and ln 0.01
    clamp = [x for x in assignments(f, "phi") if x[2] == "=" and T.strip_casts(x[4])[0] == "Cond"]
    lits = sorted(set(round(float(str(y[3]).rstrip("fFlL")), 4) * (1 if True else 1) for x in clamp for y in T.walk(x[4]) if y[0] == "Lit" and y[2] == "float"))
    negs = any(y[0] == "Un" and y[2] == "-" for x in clamp for y in T.walk(x[4]))
    if clamp and any(abs(v - math.log(85)) < 0.01 for v in lits) and any(abs(v + math.log(0.01)) < 0.01 for v in lits) and negs:
        R.ok("C19.phi", tag + "clamp", "ln phi clamped to [ln 0.01, ln 85]")
    else:
        R.violation("C19.phi", tag + "clamp", "the clamp of ln phi is not [ln 0.01, ln 85] = [-4.6, 4.44] (literals %s)" % lits, line=clamp[0][1] if clamp else f["line"], **where)


def prtemp_rule(P, R):
    """"Each fugacity coefficient matches the equation of state at the reported temperature": calc_PR(phases, P, TK, V_m) evaluates the
    Peng-Robinson equation at the temperature it is handed.  During a calculation that is the temperature of the calculation: the
    engine member tk_x, or a local computed as <solution>.Get_tc() + 273.15 while the model is set up.  The GAS_PHASE block's own
    -temperature (Get_temperature(), 25 C by default, never updated by SAVE) is the right argument only where the block is initialised
    from its definition (tidy_gas_phase).  Every call site is classified."""
    RULE = "C19.prtemp"
    R.rule(RULE, "every calc_PR call evaluates the equation of state at the temperature of the calculation (tk_x / solution temperature); the block's -temperature only in tidy_gas_phase", minimum=5)
    n = 0
    for k, g in sorted(P.functions.items(), key=lambda kv: kv[1]["q"]):
        for c in T.calls(g["body"]):
            if T.callee_q(c) != "Phreeqc::calc_PR" or len(c[4]) < 4:
                continue
            n += 1
            a = T.strip_casts(c[4][2])
            inst = "%s@%d" % (g["q"].split("::")[-1], c[1])
            where = dict(file=g["file"], line=c[1], function=g["q"])
            if T.is_node(a) and a[0] == "Member" and a[2] == "Phreeqc::tk_x":
                R.ok(RULE, inst, "TK = tk_x")
            elif T.is_node(a) and a[0] == "Ref" and a[2] == "local":
                asg = [w for t, how, line, w in T.writes(g["body"]) if how == "=" and T.is_node(T.strip_casts(t)) and T.strip_casts(t)[0] == "Ref" and T.strip_casts(t)[3] == a[3]]
                good = asg and all(any(T.callee_name(y) == "Get_tc" for y in T.calls(w[4])) and any(
                    yy[0] == "Lit" and str(yy[3]).startswith("273.15") for yy in T.walk(w[4])) for w in asg)
                if good:
                    R.ok(RULE, inst, "TK = %s = solution temperature + 273.15" % a[3])
                else:
                    R.violation(RULE, inst, "calc_PR is given the local `%s`, which is not (only) assigned <solution>.Get_tc() + 273.15" % a[3], **where)
            elif T.is_node(a) and a[0] == "Call" and T.callee_name(a) == "Get_temperature":
                if g["q"] == "Phreeqc::tidy_gas_phase":
                    R.ok(RULE, inst, "definition time: the block's own -temperature")
                else:
                    R.violation(RULE, inst, "calc_PR is evaluated at the GAS_PHASE block's own -temperature (`%s`) inside a calculation: molar volume and fugacity coefficients belong to "
                                "another temperature than the one the step is run and reported at" % T.text(a)[:60], **where)
            else:
                R.violation(RULE, inst, "calc_PR is given `%s` as temperature, which is neither tk_x nor a solution temperature" % T.text(a)[:60], **where)
    if n < 5:
        R.anchor_missing(RULE, "only %d calc_PR(phases, P, TK, V_m) call sites" % n)


def vmowner_rule(P, R):
    """"Reported P, V, T and moles obey the equation of state": calc_PR evaluates the Peng-Robinson equation for the phases it is handed and
    can store the resulting molar volume (and, for fixed volume, pressure) in the GAS_PHASE in use.  It is called for the components of
    that gas phase and, while a model is set up, for single gases of EQUILIBRIUM_PHASES.  (store) every store into the gas phase inside
    calc_PR is guarded by the parameter that says the evaluation is for the gas phase; (callers) a caller that does not walk the
    components of the gas phase (no Get_gas_comps in the function: the pure-phase set-up) passes that parameter as false.  Otherwise the
    molar volume of an unrelated gas ends up in the gas phase, which then reports V = v_m * n of another substance."""
    RULE = "C19.vmowner"
    R.rule(RULE, "calc_PR stores v_m / total_p in the gas phase only when evaluated for it; the pure-phase callers say so", minimum=4)
    fs = [g for g in P.fns_named("Phreeqc::calc_PR") if len(g.get("pnames", [])) >= 4]
    if len(fs) != 1:
        R.anchor_missing(RULE, "calc_PR(phases, P, TK, V_m, ...) not found")
        return
    f = fs[0]
    flag = f["pnames"][4] if len(f["pnames"]) > 4 else None
    stores = []

    def rec(n, conds):
        if not T.is_node(n):
            return
        if n[0] == "Call" and T.callee_q(n) in ("cxxGasPhase::Set_v_m", "cxxGasPhase::Set_total_p"):
            stores.append((n, list(conds)))
        if n[0] == "If":
            rec(n[2], conds)
            rec(n[3], conds + [n[2]])
            rec(n[4], conds)
            return
        for ch in T.children(n):
            rec(ch, conds)
    rec(f["body"], [])
    if not stores:
        R.ok(RULE, "store", "calc_PR does not store into the gas phase")
    for c, conds in stores:
        inst = "store:%s@%d" % (T.callee_name(c), c[1])
        guarded = flag is not None and any(any(y[0] == "Ref" and y[2] == "param" and y[3] == flag for y in T.walk(k)) for k in conds)
        if guarded:
            R.ok(RULE, inst, "guarded by `%s`" % flag)
        else:
            R.violation(RULE, inst, "calc_PR stores into the GAS_PHASE in use without knowing whether the phases it evaluated belong to it: a gas of EQUILIBRIUM_PHASES leaves its "
                        "molar volume in an unrelated gas phase", file=f["file"], line=c[1], function=f["q"])
    for k, g in sorted(P.functions.items(), key=lambda kv: kv[1]["q"]):
        for c in T.calls(g["body"]):
            if T.callee_q(c) != "Phreeqc::calc_PR" or len(c[4]) < 4:
                continue
            inst = "caller:%s@%d" % (g["q"].split("::")[-1], c[1])
            walks = any(T.callee_name(y) == "Get_gas_comps" for y in T.calls(g["body"]))
            last = T.strip_casts(c[4][4]) if len(c[4]) > 4 else None
            says_false = last is not None and T.lit_value(last) == 0
            if walks or says_false:
                R.ok(RULE, inst, "walks the gas phase's components" if walks else "passes for_gas_phase = false")
            else:
                R.violation(RULE, inst, "%s evaluates calc_PR for phases that are not taken from the gas phase and lets it store the molar volume there" % g["q"], file=g["file"], line=c[1], function=g["q"])


def cachereset_rule(P, R):
    """"Peng-Robinson with the critical constants given in the database" - the CURRENT ones: calc_PR computes a, b from T_c, P_c only
    when the phase's cache key is unset (`if (!phase_ptr->pr_a)`) and alpha only when pr_tk differs.  PHASES may redefine a gas during the
    life of the instance; phase_store then re-initialises the existing record with phase_init.  Every member that calc_PR tests as a cache
    key (a phase member in the condition of an if whose body assigns phase members) must be reset by phase_init, and phase_store must
    reach phase_init for an existing entry - otherwise the gas keeps the a, b of its former critical constants."""
    RULE = "C19.cachereset"
    R.rule(RULE, "every phase member that calc_PR uses as a cache key is reset by phase_init, which phase_store applies to a redefined phase", minimum=5)
    init = P.one("Phreeqc::phase_init")
    store = P.one("Phreeqc::phase_store")
    reset = {}
    for t, how, line, w in T.writes(init["body"]):
        root, steps = T.access_path(t)
        if how == "=" and steps and steps[-1][0] == "f":
            r = T.strip_casts(w[4])
            if T.is_node(r) and r[0] == "Lit":
                reset[steps[-1][1].split("::")[-1]] = line
    fs = [g for g in P.fns_named("Phreeqc::calc_PR") if g.get("body")]
    n = 0
    for f in fs:
        tag = "PR%d" % (4 if f["pnames"] else 0)
        keys = {}
        for x in T.walk(f["body"]):
            if x[0] != "If":
                continue
            assigns = [w for t, how, line, w in T.writes(x[3]) if how == "=" and T.is_node(T.strip_casts(t)) and T.strip_casts(t)[0] == "Member"
                       and T.strip_casts(t)[2].startswith("phase::")]
            if not assigns:
                continue
            for y in T.walk(x[2]):      # `!p->key` or `p->key != value`: a cache-state test (not an ordering test of a quantity)
                cand = []
                if y[0] == "Un" and y[2] == "!":
                    cand = [T.strip_casts(y[3])]
                elif y[0] == "Bin" and y[2] == "!=":
                    cand = [T.strip_casts(y[3]), T.strip_casts(y[4])]
                for m in cand:
                    if T.is_node(m) and m[0] == "Member" and m[2].startswith("phase::"):
                        keys.setdefault(m[2].split("::")[-1], x[1])
        for key, line in sorted(keys.items()):
            n += 1
            inst = "%s:%s" % (tag, key)
            if key in reset:
                R.ok(RULE, inst, "cache key tested at line %d, reset by phase_init (line %d)" % (line, reset[key]))
            else:
                R.violation(RULE, inst, "calc_PR recomputes cached Peng-Robinson terms only under a test of phase::%s (line %d), but phase_init does not reset %s: a gas redefined in "
                            "PHASES keeps the terms of its former critical constants" % (key, line, key), file=init["file"], line=init["line"], function=init["q"])
    if any(T.callee_q(c) == "Phreeqc::phase_init" for c in T.calls(store["body"])):
        R.ok(RULE, "phase_store", "re-initialises an existing phase with phase_init")
    else:
        R.violation(RULE, "phase_store", "phase_store no longer applies phase_init to a phase that is defined again: every cached term survives the redefinition",
                    file=store["file"], line=store["line"], function=store["q"])
    if n < 4:
        R.anchor_missing(RULE, "only %d cache keys found in the calc_PR overloads" % n)


def prfallback_rule(P, R):
    """"the same relations hold for gases used as EQUILIBRIUM_PHASES": PR_P and PR_PHI report, for a gas that is a component of the gas
    phase in use, the values of that gas phase and, for any other gas, the values the pure-phase calculation stored in the phase
    (phase::pr_p, pr_phi, valid when phase::pr_in).  In pr_pressure and pr_phi every path that has searched the components of the gas
    phase without a match must come to the test of phase::pr_in before a default (a literal) is returned - with the pure-phase branch
    as the `else` of "a gas phase is in use", PR_P / PR_PHI of CH4(g) in EQUILIBRIUM_PHASES were 0 / 1 whenever a GAS_PHASE was present."""
    RULE = "C19.prfallback"
    R.rule(RULE, "pr_pressure / pr_phi: a gas not found among the components of the gas phase in use falls back to the pure-phase values before any default", minimum=2)
    for q in ("Phreeqc::pr_pressure", "Phreeqc::pr_phi"):
        f = P.one(q)
        cfg = T.CFG(f)

        def has_member(n, name):
            return T.is_node(n) and any(y[0] == "Member" and y[2] == name for y in T.walk(n))
        loops = [i for i, nd in enumerate(cfg.nodes) if T.is_node(nd["n"]) and nd["n"][0] == "Bin" and nd["n"][2] in ("<", "<=", "!=")
                 and any(y[0] == "Call" and T.callee_name(y) == "Get_gas_comps" for y in T.walk(nd["n"]))]
        tests = [i for i, nd in enumerate(cfg.nodes) if has_member(nd["n"], "phase::pr_in") and len(nd["succ"]) == 2]
        if len(loops) != 1 or not tests:
            R.anchor_missing(RULE, "%s: component loop (%d) or the test of phase::pr_in (%d) not found" % (q, len(loops), len(tests)))
            continue
        seen, st, bad = {loops[0]}, [loops[0]], None
        while st:
            x = st.pop()
            nd = cfg.nodes[x]
            if x in tests:
                continue
            n = nd["n"]
            if T.is_node(n) and n[0] == "Return" and T.is_node(T.strip_casts(n[2])) and T.strip_casts(n[2])[0] in ("Lit", "Paren") and \
                    not any(y[0] in ("Member", "Call", "Ref") for y in T.walk(n[2])):
                bad = nd["line"]
                break
            for y in nd["succ"]:
                if y not in seen:
                    seen.add(y)
                    st.append(y)
        inst = q.split("::")[-1]
        if bad is None:
            R.ok(RULE, inst, "an unmatched gas reaches the test of phase::pr_in (line %d)" % cfg.nodes[tests[0]]["line"])
        else:
            R.violation(RULE, inst, "%s returns the default at line %d for a gas that is not a component of the gas phase in use without looking at the pure-phase values "
                        "(phase::pr_in): PR_P / PR_PHI of a gas in EQUILIBRIUM_PHASES are 0 / 1 whenever a GAS_PHASE is present" % (inst, bad), file=f["file"], line=bad, function=q)


def gasdup_rule(P, R):
    """"partial pressures are mole-fraction shares of the total and sum to it": every component of a gas phase must be a different phase.
    Gas names are resolved with phase_bsearch, without regard to case, so `CO2(g)` and `co2(g)` are one phase; read_gas_phase merges
    repeated lines through a map keyed by the typed name, which keeps the two spellings apart unless keys that compare equal without
    regard to case are erased before the store.  Two components of one phase count its moles and pressure twice in the totals."""
    RULE = "C19.gasdup"
    R.rule(RULE, "read_gas_phase: the merge of repeated gas lines is keyed without regard to case (no two components of one phase)", minimum=1)
    f = P.one("Phreeqc::read_gas_phase")
    stores = [c for c in T.calls(f["body"]) if T.callee_name(c) == "operator[]" and c[4] and "cxxGasComp" in str(c[2].get("ret", "")) and "map" in str(c[2].get("ret", ""))]
    if not stores:
        R.anchor_missing(RULE, "read_gas_phase: the map that merges repeated gas lines was not found")
        return
    for c in stores:
        mp = "".join(T.text(c[4][0], -40).split())
        erases = [x for x in T.calls(f["body"]) if T.callee_name(x) == "erase" and T.call_obj(x) is not None and "".join(T.text(T.call_obj(x), -40).split()) == mp and x[1] < c[1]]
        nocase = [x for x in T.calls(f["body"]) if T.callee_name(x) == "strcmp_nocase" and x[1] < c[1]]
        inst = "merge@%d" % (c[1] - f["line"])
        if erases and nocase:
            R.ok(RULE, inst, "keys equal without regard to case are erased before the store")
        else:
            R.violation(RULE, inst, "read_gas_phase merges repeated gas lines under the name as typed: `CO2(g)` and `co2(g)` stay two components of one phase, whose moles and "
                        "partial pressure are counted twice (the partial pressures no longer sum to the total)", file=f["file"], line=c[1], function=f["q"])


def savedvolume_rule(P, R):
    """"reported total pressure, volume, temperature and moles satisfy the equation of state" - also in the gas phase that is SAVEd.  For a
    fixed-pressure gas phase xgas_save stores total_moles = n (the solved gas unknown) and volume = n * V_m, with V_m = R T / P for ideal
    gases and the Peng-Robinson molar volume otherwise.  Every Set_volume in that block is checked symbolically: the stored volume divided
    by the stored total moles must be exactly one of the two molar volumes (a volume built from the moles of the copy being saved - the
    amounts at the START of the step - does not belong to the stored moles and pressure)."""
    RULE = "C19.savedvolume"
    R.rule(RULE, "xgas_save, fixed pressure: stored volume = stored total moles * molar volume (R T / P or the Peng-Robinson V_m)", minimum=2)
    f = P.one("Phreeqc::xgas_save")

    def sym(n):
        return "".join(T.text(n, -40).split())

    def rat(n):
        return RF.from_tree(n, sym, opaque_calls=("Get_v_m", "Get_total_p", "Calc_total_moles", "Get_volume", "Get_total_moles"))
    blocks = [x for x in T.walk(f["body"]) if x[0] == "If" and any(T.callee_name(c) == "Set_total_moles" for c in T.calls(x[3]))]
    if len(blocks) != 1:
        R.anchor_missing(RULE, "xgas_save: the fixed-pressure block (Set_total_moles) was found %d times" % len(blocks))
        return
    blk = blocks[0]
    try:
        nmol = [rat(c[4][0]) for c in T.calls(blk[3]) if T.callee_name(c) == "Set_total_moles"][0]
        vols = [(c[1], rat(c[4][0])) for c in T.calls(blk[3]) if T.callee_name(c) == "Set_volume"]
    except RF.NotRational as e:
        R.anchor_missing(RULE, "xgas_save: stored moles / volume not rational (%s)" % e)
        return
    for line, v in vols:
        q = v / nmol
        inst = "volume@%d" % (line - f["line"])
        vsyms = v.symbols()
        is_vm = any("Get_v_m" in s_ and v.same(nmol * RF.Rat.sym(s_)) for s_ in vsyms)
        is_ideal = False
        tks = [s_ for s_ in vsyms if "tk_x" in s_]
        ps = [s_ for s_ in vsyms if "Get_total_p" in s_]
        if tks and ps:
            r = v * RF.Rat.sym(ps[0]) / (nmol * RF.Rat.sym(tks[0]))
            c = r.at_ones()
            is_ideal = c is not None and r.same(RF.Rat.const(c))        # a pure constant: the gas constant
        if is_vm or is_ideal:
            R.ok(RULE, inst, "volume / total moles = %r" % q)
        else:
            R.violation(RULE, inst, "the volume stored with a fixed-pressure gas phase is %r while the stored total moles are %r: their ratio %r is neither R T / P nor the "
                        "Peng-Robinson molar volume - the saved gas phase does not satisfy the equation of state" % (v, nmol, q), file=f["file"], line=line, function=f["q"])
    if len(vols) < 2:
        R.anchor_missing(RULE, "xgas_save: only %d Set_volume in the fixed-pressure block (ideal and Peng-Robinson expected)" % len(vols))


def absentgas_rule(P, R):
    """"partial pressures are mole-fraction shares of the total and sum to it": the pressure equation of a fixed-pressure gas phase sums
    phase::p_soln_x of EVERY listed gas (build_gas_phase), and the phase records live for the whole instance.  calc_gas_pressures gives
    each gas that is in the model its partial pressure and moles; for a listed gas that is NOT in the model (its element is absent) the
    else-branch must reset every member the then-branch computes - otherwise the value of an earlier calculation stays in the sum."""
    RULE = "C19.absentgas"
    R.rule(RULE, "calc_gas_pressures: a listed gas that is not in the model gets every per-calculation member reset that a gas in the model gets computed", minimum=1)
    f = P.one("Phreeqc::calc_gas_pressures")

    def members(n):
        out = set()
        for t, how, line, w in T.writes(n):
            t2 = T.strip_casts(t)
            if T.is_node(t2) and t2[0] == "Member" and t2[2].startswith("phase::") and how in ("=", "op="):
                out.add(t2[2].split("::")[-1])
        return out
    n = 0
    for x in T.walk(f["body"]):
        if x[0] != "If" or not T.is_node(x[4]):
            continue
        c = T.strip_casts(x[2])
        if not (T.is_node(c) and c[0] == "Bin" and c[2] == "==" and any(y[0] == "Member" and y[2] == "phase::in" for y in T.walk(c))):
            continue
        th, el = members(x[3]), members(x[4])
        if not th or not el:
            continue
        n += 1
        inst = "in-model@%d" % (x[1] - f["line"])
        missing = sorted(th - el)
        if not missing:
            R.ok(RULE, inst, "computed {%s}, reset {%s}" % (", ".join(sorted(th)), ", ".join(sorted(el))))
        else:
            R.violation(RULE, inst, "a gas in the model gets %s computed, a listed gas that is not in the model keeps its old %s: the value of an earlier calculation stays in the "
                        "sum of partial pressures of the gas phase" % (", ".join(sorted(th)), ", ".join(missing)), file=f["file"], line=x[4][1], function=f["q"])
    if n < 1:
        R.anchor_missing(RULE, "calc_gas_pressures: the in-model / not-in-model branch pair was not found")
