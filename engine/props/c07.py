"""C07 – loading a database returns the instance to the fresh state.

Decided: *reset completeness* (a necessary condition): every member of the engine object (class Phreeqc) and of the
wrapper object (class IPhreeqc incl. its PHRQ_io base) is re-initialised on every normal-completion path of the reload
sequence, or is in an exemption table whose secondary obligation is re-checked on every run.
  C07.engine   fields of Phreeqc vs. must-write set of clean_up(); init(); do_initialize()
  C07.wrapper  fields of IPhreeqc/PHRQ_io vs. must-write set of UnLoadDatabase() + test_db() (run on the success path)
  C07.order    UnLoadDatabase dominates read_database in load_db/load_db_str; clean_up < init < do_initialize;
               test_db is called on the n == 0 path of LoadDatabase/LoadDatabaseString
  C07.survivor documented survivors (id, global output switches, user-set file names) are not written by the reload functions
  C07.mirror   every engine-side write of a mirrored PRINT/KNOBS option is paired with the PHRQ_io setter
Not decided: equality of results after the load beyond reset completeness (a reset to a wrong value, allocator effects).
"""
import json
import os

from .. import tree as T
from .. import mustwrite as MW
from ..callgraph import get as callgraph
from ..facts import VERIF

PROP = "C07"


def load_table(name):
    return json.load(open(os.path.join(VERIF, "tables", name)))


def short(path):
    return ".".join(str(x).split("::")[-1] for x in path)


def accesses_of_field(P, fq):
    """{function key: set('r','w')} over the whole program, through any object expression"""
    out = {}
    for key, f in P.functions.items():
        roots = [f["body"]] + [i[3] for i in f.get("inits", [])]
        hit = False
        for rt in roots:
            for x in T.walk(rt):
                if x[0] == "Member" and x[2] == fq:
                    hit = True
                    break
            if hit:
                break
        if not hit:
            for i in f.get("inits", []):
                if i[0] == "field" and i[1] == fq:
                    hit = True
        if hit:
            out[key] = True
    return out


def reads_of_field(P, fq):
    """functions that read the field's value (not merely write/clear it)"""
    out = set()
    for key, f in P.functions.items():
        written_nodes = set()
        for tgt, how, line, node in T.writes(f["body"]):
            t = T.strip_casts(tgt)
            if T.is_node(t) and t[0] == "Member" and t[2] == fq and how in ("=",) :
                written_nodes.add(id(t))
            if T.is_node(t) and t[0] == "Member" and t[2] == fq and how.startswith("call:") and how[5:] in ("clear", "resize", "assign", "push_back", "reserve", "append", "erase"):
                written_nodes.add(id(t))
        for x in T.walk(f["body"]):
            if x[0] == "Member" and x[2] == fq and id(x) not in written_nodes:
                out.add(key)
                break
    return out


def must_after_leading_guard(mw, P, f):
    """must-set of f ignoring a leading `if (<nothing requested>) return ...;` guard"""
    body = f["body"]
    stmts = list(body[2])
    i = 0
    while i < len(stmts) and stmts[i][0] in ("Decl",):
        i += 1
    if i < len(stmts) and stmts[i][0] == "If" and not T.is_node(stmts[i][4]):
        then = stmts[i][3]
        only_return = (then[0] == "Return") or (then[0] == "Compound" and len(then[2]) == 1 and then[2][0][0] == "Return")
        if only_return:
            rest = ["Compound", body[1], stmts[:i] + stmts[i + 1:]]
            w, _ = mw.stmt(rest, f)
            return w
    w, _ = mw.stmt(body, f)
    return w


def check_class(P, R, rule, cls, must, table, mw, path_prefix=()):
    flds = MW.all_fields(P, cls)
    names = {fl["name"] for fl in flds}
    used = set()
    for fl in flds:
        inst = fl["name"]
        p = path_prefix + (fl["q"],)
        if MW.covered(P, must, p, fl["ctype"]):
            R.ok(rule, inst, "must-written by the reload sequence")
            continue
        missing = MW.uncovered_subfields(P, must, p, fl["ctype"])
        # table look-up: whole field or every uncovered sub-path
        row = table.get(fl["name"])
        if row is not None:
            used.add(fl["name"])
            ok, why = check_row(P, R, rule, fl, row, mw)
            if ok:
                R.ok(rule, inst, "exempt (%s): %s" % (row["class"], why))
            else:
                R.violation(rule, inst, "exemption class `%s` no longer holds: %s" % (row["class"], why), file=fl_file(P, cls), line=fl["line"], function=cls)
            continue
        still = []
        for m in missing:
            key = ".".join(x.split("::")[-1] for x in m[len(path_prefix):])
            if key in table:
                used.add(key)
            else:
                still.append(key)
        if not still:
            R.ok(rule, inst, "remaining sub-fields exempt: %s" % ", ".join(short(m[len(path_prefix):]) for m in missing)[:120])
            continue
        R.violation(rule, inst, "member `%s` (%s) is not re-initialised on every path of the reload sequence and is not exempt%s"
                    % (fl["name"], fl["type"][:50], "" if still == [fl["name"]] else "; uncovered sub-fields: " + ", ".join(still[:8])),
                    file=fl_file(P, cls), line=fl["line"], function=cls)
    for k in table:
        if k not in used:
            top = k.split(".")[0]
            if top not in names:
                R.anchor_missing(rule, "exemption table row `%s` names a member that no longer exists" % k)
            else:
                # the member became must-covered: the row is redundant (it would mask a later removal of the reset)
                R.info.setdefault("redundant_exemption_rows", []).append("%s:%s" % (rule, k))


def is_raw_storage(ctype):
    """members whose storage holds indeterminate bytes unless the code assigns it: scalars, pointers, arrays of those"""
    import re
    ct = ctype.strip()
    if ct.endswith("*"):
        return True
    base = re.sub(r"\[.*", "", ct).strip()
    return base in ("int", "double", "long double", "bool", "char", "unsigned int", "long", "unsigned long", "float", "short",
                    "unsigned char", "long long", "unsigned long long") or base.startswith("enum ")


def fresh_rule(P, R, RULE):
    """C06 (shared): a fresh engine object holds no indeterminate bytes a run could read.  Every raw-storage member of class
    Phreeqc is must-written by the constructor, or by the load sequence every instance passes before its first run
    (clean_up; init; do_initialize), or is in the C07 exemption table (rows re-checked: written before read, dead, ...)."""
    R.rule(RULE, "no raw-storage member of class Phreeqc is left indeterminate on a fresh instance (constructor ∪ first-load sequence, or re-checked exemption)", minimum=380)
    mw = MW.MustWrite(P, extra_cover_methods=("SetAll",))
    ctors = [f for f in P.fns_named("Phreeqc::Phreeqc") if f.get("params") == ["PHRQ_io *"]]
    if len(ctors) != 1:
        R.anchor_missing(RULE, "constructor Phreeqc::Phreeqc(PHRQ_io *) not found")
        return
    must_ctor = set(mw.of_function(ctors[0]["key"]))
    must = set(must_ctor)
    for q in ("Phreeqc::clean_up", "Phreeqc::init", "Phreeqc::do_initialize"):
        must |= set(mw.of_function(P.one(q)["key"]))
    R.info["must_constructor"] = len(must_ctor)
    et = load_table("c07_engine_exempt.json")["fields"]
    hdr = fl_file(P, "Phreeqc")
    n = 0
    for fl in MW.all_fields(P, "Phreeqc"):
        if not is_raw_storage(fl["ctype"]):
            continue
        n += 1
        p = (fl["q"],)
        if MW.covered(P, must_ctor, p, fl["ctype"]):
            R.ok(RULE, fl["name"], "assigned by the constructor")
        elif MW.covered(P, must, p, fl["ctype"]):
            R.ok(RULE, fl["name"], "assigned by the first load (clean_up; init; do_initialize)")
        elif fl["name"] in et:
            ok, why = check_row(P, R, RULE, fl, et[fl["name"]], mw)
            if ok:
                R.ok(RULE, fl["name"], "exempt (%s): %s" % (et[fl["name"]]["class"], why))
            else:
                R.violation(RULE, fl["name"], "exemption class `%s` no longer holds: %s" % (et[fl["name"]]["class"], why), file=hdr, line=fl["line"], function="Phreeqc")
        else:
            R.violation(RULE, fl["name"], "member `%s` (%s) is assigned neither by the constructor nor by the first-load sequence on every path: a fresh instance reads "
                        "whatever bytes the allocator handed out (e.g. those of a destroyed instance), so results differ between instances and repetitions"
                        % (fl["name"], fl["type"][:40]), file=hdr, line=fl["line"], function="Phreeqc")
    R.info["raw_storage_members"] = n


def fl_file(P, cls):
    r = P.records.get(cls)
    return r["file"] if r else ""


def check_row(P, R, rule, fl, row, mw):
    cls = row["class"]
    fq = fl["q"]
    if cls in ("survivor", "guarded", "unconfirmed"):
        return True, row["reason"][:100]
    if cls in ("per_simulation", "scratch", "consumed", "consumed_guarded"):
        fs = P.fns_named(row["by"])
        if not fs:
            return False, "function %s not found" % row["by"]
        if cls in ("consumed", "consumed_guarded", "per_simulation"):
            # the argument "the self-test run of LoadDatabase executes <by>" needs <by> to be called unconditionally by the
            # per-call driver (a `if (new_copy) copy_entities()` does NOT run for the self-test input) or by read_input's caller
            drv = P.one("IPhreeqc::do_run")
            uncond = False

            def rec(n, cond):
                nonlocal uncond
                if not T.is_node(n):
                    return
                if n[0] == "If":
                    rec(n[2], cond)
                    rec(n[3], True)
                    rec(n[4], True)
                    return
                if n[0] == "Call" and T.callee_q(n) == row["by"] and not cond:
                    uncond = True
                for c in T.children(n):
                    rec(c, cond or n[0] in ("Switch", "Cond"))
            rec(drv["body"], False)
            if not uncond:
                return False, "%s is not called unconditionally by IPhreeqc::do_run: the self-test run of a load need not execute it" % row["by"]
        for f in fs:
            if cls == "consumed_guarded":
                m = must_after_leading_guard(mw, P, f)
            else:
                m = mw.of_function(f["key"])
            if MW.covered(P, m, (fq,), fl["ctype"]):
                return True, "%s must-writes it" % row["by"]
            # partial: all sub-fields that matter
            miss = MW.uncovered_subfields(P, m, (fq,), fl["ctype"])
            miss = [x for x in miss if x[-1].split("::")[-1] not in ("io", "base_error_count")]
            if not miss:
                return True, "%s must-writes every data member" % row["by"]
        return False, "%s no longer must-writes `%s` (missing: %s)" % (row["by"], fl["name"], ", ".join(short(x) for x in miss[:5]))
    if cls == "flag_rebuilt":
        fs = P.fns_named(row["by"])
        if not fs:
            return False, "function %s not found" % row["by"]
        f = fs[0]
        for st in f["body"][2]:
            if st[0] == "If":
                c = T.strip_casts(st[2])
                if T.is_node(c) and c[0] == "Member" and c[2].split("::")[-1] == row["flag"]:
                    w, _ = mw.stmt(st[3], f)
                    # reference-parameter writes of callees are folded in by expr_writes; accept a call that passes the
                    # field by non-const reference to a function that must-writes that parameter
                    if MW.covered(P, w, (fq,), fl["ctype"]):
                        return True, "rebuilt under `if (%s)` in %s" % (row["flag"], row["by"])
                    for c2 in T.calls(st[3]):
                        for i, a in enumerate(T.call_args(c2)):
                            if T.access_path(a) == (("this",), [("f", fq)]):
                                tg = mw.cg.resolve(c2[2], f) if isinstance(c2[2], dict) else []
                                for t in tg:
                                    if (("param", i),) in mw.of_function(t):
                                        return True, "rebuilt under `if (%s)` by %s" % (row["flag"], T.callee_q(c2))
        return False, "%s does not rebuild `%s` under `if (%s)`" % (row["by"], fl["name"], row["flag"])
    if cls == "confined":
        allowed = set(row["by"].split())
        acc = accesses_of_field(P, fq)
        outside = sorted(P.functions[k]["q"] for k in acc if P.functions[k]["q"] not in allowed and P.functions[k]["name"] not in ("InternalCopy", "Phreeqc", "~Phreeqc", "operator="))
        if outside:
            return False, "accessed outside its confinement set by %s" % ", ".join(outside[:5])
        return True, "all accesses inside {%s}" % ", ".join(sorted(a.split("::")[-1] for a in allowed))
    if cls == "unread":
        rd = sorted(P.functions[k]["q"] for k in reads_of_field(P, fq) if P.functions[k]["name"] not in ("InternalCopy", "status", "screen_msg"))
        if rd:
            return False, "is now read by %s" % ", ".join(rd[:5])
        return True, "no reader"
    return False, "unknown exemption class " + cls


def run(P, R, tier):
    R.undecided += ["(c) equality of post-load results with a fresh instance beyond reset completeness (a member reset to a wrong value, "
                    "allocator- or address-dependent behaviour)"]
    mw = MW.MustWrite(P, extra_cover_methods=("SetAll",))
    cg = callgraph(P)

    initorder_rule(P, R, ("phrq_io", "ioInstance"))
    unloadclear_rule(P, R)
    # ------------------------------------------------------------------ C07.order
    R.rule("C07.order", "reload sequence: UnLoadDatabase before read_database; clean_up < init < do_initialize; test_db on the success path", minimum=6)
    un = P.one("IPhreeqc::UnLoadDatabase")
    seq = []
    for s in un["body"][2]:
        if s[0] == "Call" and T.callee_q(s) in ("Phreeqc::clean_up", "Phreeqc::init", "Phreeqc::do_initialize"):
            seq.append(T.callee_q(s))      # unconditional top-level statements only
    if seq == ["Phreeqc::clean_up", "Phreeqc::init", "Phreeqc::do_initialize"]:
        R.ok("C07.order", "UnLoadDatabase", "clean_up(); init(); do_initialize() as top-level statements in this order")
    else:
        R.violation("C07.order", "UnLoadDatabase", "expected unconditional clean_up(); init(); do_initialize() in this order, found %s" % seq,
                    file=un["file"], line=un["line"], function=un["q"])
    for q in ("IPhreeqc::load_db", "IPhreeqc::load_db_str"):
        f = P.one(q)
        cfg = T.CFG(f)
        dom = cfg.dominators()
        un_nodes = [n["id"] for n in cfg.nodes if T.is_node(n["n"]) and any(T.callee_q(c) == "IPhreeqc::UnLoadDatabase" for c in T.calls(n["n"]))]
        rd_nodes = [n["id"] for n in cfg.nodes if T.is_node(n["n"]) and any(T.callee_q(c) == "Phreeqc::read_database" for c in T.calls(n["n"]))]
        if not R.require(un_nodes and rd_nodes, "C07.order", "%s: UnLoadDatabase / read_database call not found" % q):
            continue
        if all(any(u in dom.get(r, ()) for u in un_nodes) for r in rd_nodes):
            R.ok("C07.order", q, "UnLoadDatabase() dominates read_database()")
        else:
            R.violation("C07.order", q, "read_database() reachable without UnLoadDatabase() first", file=f["file"], line=f["line"], function=q)
    for q in ("IPhreeqc::LoadDatabase", "IPhreeqc::LoadDatabaseString"):
        f = P.one(q)
        okc = False
        for x in T.walk(f["body"]):
            if x[0] == "If":
                c = T.strip_casts(x[2])
                if c[0] == "Bin" and c[2] == "==" and T.lit_value(c[4]) == 0 and any(T.callee_q(cc) == "IPhreeqc::test_db" for cc in T.calls(x[3])):
                    okc = True
        # equivalent early-return form: `if (n != 0) { ... return ...; }` as a top-level statement before a top-level test_db()
        top = [s_ for s_ in f["body"][2] if T.is_node(s_)]
        for i_, s_ in enumerate(top):
            if s_[0] == "If" and not T.is_node(s_[4]):
                c = T.strip_casts(s_[2])
                th = s_[3][2] if s_[3][0] == "Compound" else [s_[3]]
                if c[0] == "Bin" and c[2] == "!=" and T.lit_value(c[4]) == 0 and th and T.is_node(th[-1]) and th[-1][0] == "Return":
                    if any(T.callee_q(cc) == "IPhreeqc::test_db" for t_ in top[i_ + 1:] for cc in T.calls(t_)) and \
                            not any(T.callee_q(cc) == "IPhreeqc::test_db" for t_ in top[:i_ + 1] for cc in T.calls(t_)):
                        okc = True
        if okc:
            R.ok("C07.order", q, "test_db() run exactly when the load reported 0 errors")
        else:
            R.violation("C07.order", q, "test_db() is not called on the `n == 0` path", file=f["file"], line=f["line"], function=q)
    tdb = P.one("IPhreeqc::test_db")
    if any(T.callee_q(c) == "IPhreeqc::RunString" for s in tdb["body"][2] for c in T.calls(s)):
        R.ok("C07.order", "test_db", "runs RunString unconditionally")
    else:
        R.violation("C07.order", "test_db", "test_db no longer runs RunString", file=tdb["file"], line=tdb["line"], function=tdb["q"])
    rdb = P.one("Phreeqc::read_database")
    rq = [T.callee_q(c) for c in T.calls(rdb["body"])]
    if "Phreeqc::read_input" in rq and "Phreeqc::tidy_model" in rq and rq.index("Phreeqc::read_input") < rq.index("Phreeqc::tidy_model"):
        R.ok("C07.order", "read_database", "read_input(); tidy_model()")
    else:
        R.violation("C07.order", "read_database", "read_database must run read_input() then tidy_model()", file=rdb["file"], line=rdb["line"], function=rdb["q"])

    # ------------------------------------------------------------------ C07.engine
    R.rule("C07.engine", "every member of class Phreeqc is re-initialised by clean_up(); init(); do_initialize() or exempt with a re-checked reason", minimum=550)
    must = set()
    mw_strict = MW.MustWrite(P, extra_cover_methods=("SetAll",), resize_covers=False)   # a resize keeps the old elements: not a reset
    for q in ("Phreeqc::clean_up", "Phreeqc::init", "Phreeqc::do_initialize"):
        m = mw_strict.of_function(P.one(q)["key"])
        R.info["must_" + q.split("::")[-1]] = len(m)
        must |= m
    et = load_table("c07_engine_exempt.json")
    R.table("c07_engine_exempt.json", et)
    check_class(P, R, "C07.engine", "Phreeqc", must, et["fields"], mw)

    # ------------------------------------------------------------------ C07.wrapper
    R.rule("C07.wrapper", "every member of IPhreeqc/PHRQ_io is re-initialised by UnLoadDatabase() + test_db(), a documented survivor, or exempt", minimum=65)
    mustw = set(mw_strict.of_function(un["key"])) | set(mw_strict.of_function(tdb["key"]))
    wt = load_table("c07_wrapper_exempt.json")
    R.table("c07_wrapper_exempt.json", wt)
    check_class(P, R, "C07.wrapper", "IPhreeqc", mustw, wt["fields"], mw)

    mirror_rule(P, R, "C07.mirror", wt, un)
    survivor_rule(P, R, wt)


def survivor_rule(P, R, wt):
    """Documented survivors of a database load (instance id, global output switches, user-set file names) are never written by
    the reload path itself; the only accepted writes are the save / override / restore idiom of LoadDatabase* (whose restore
    is checked by C08.restore)."""
    R.rule("C07.survivor", "documented survivors of a load are not written by the reload functions (except save/override/restore)", minimum=14)
    reload_fns = ["IPhreeqc::UnLoadDatabase", "IPhreeqc::load_db", "IPhreeqc::load_db_str", "IPhreeqc::LoadDatabase", "IPhreeqc::LoadDatabaseString", "IPhreeqc::test_db"]
    fns = []
    for q in reload_fns:
        fs = P.fns_named(q)
        if len(fs) != 1:
            R.anchor_missing("C07.survivor", "%s: %d definitions" % (q, len(fs)))
            continue
        fns.append(fs[0])
    for name, row in sorted(wt["fields"].items()):
        if row.get("class") != "survivor":
            continue
        bad = []
        for f in fns:
            restores = set()
            for t, how, line, n in T.writes(f["body"]):
                root, steps = T.access_path(t)
                if root == ("this",) and steps and steps[0][0] == "f" and steps[0][1].split("::")[-1] == name and how == "=" and n[0] == "Bin":
                    rv = T.strip_casts(n[4])
                    if T.is_node(rv) and rv[0] == "Ref" and rv[2] == "local":
                        restores.add(name)
            for t, how, line, n in T.writes(f["body"]):
                root, steps = T.access_path(t)
                if root == ("this",) and steps and steps[0][0] == "f" and steps[0][1].split("::")[-1] == name:
                    if name in restores and how == "=":
                        continue          # save / override / restore idiom
                    bad.append((f, line, how))
        if bad:
            f, line, how = bad[0]
            R.violation("C07.survivor", name, "%s writes the documented survivor `%s` (%s, line %d): a value the user set before LoadDatabase does not survive the load"
                        % (f["q"], name, how, line), file=f["file"], line=line, function=f["q"])
        else:
            R.ok("C07.survivor", name, "not written by the reload functions")


def mirror_rule(P, R, RULE, wt, un, only=None, minimum=4):
    R.rule(RULE, "engine writes of mirrored PRINT/KNOBS options are paired with the PHRQ_io setter; the reload path resets both sides", minimum=minimum)
    mirrors = wt["mirrors"]
    for mrow in mirrors:
        opt, setter = mrow["option"], mrow["setter"]
        if only is not None and opt not in only:
            continue
        writers = []
        for key, f in P.functions.items():
            if f.get("cls") != "Phreeqc" or f["name"] in ("InternalCopy", "Phreeqc"):
                continue
            for tgt, how, line, node in T.writes(f["body"]):
                root, steps = T.access_path(tgt)
                if root == ("this",) and [s[1].split("::")[-1] for s in steps if s[0] == "f"] == opt.split("."):
                    writers.append((f, line))
        if not R.require(writers, RULE, "no writer of %s found" % opt):
            continue
        nth = {}
        for f, line in writers:
            nth[f["name"]] = nth.get(f["name"], 0) + 1
            inst = "%s@%s" % (opt, f["name"]) + ("" if nth[f["name"]] == 1 else "#%d" % nth[f["name"]])
            # per-write pairing: the setter is called in the same statement or in one of the next two statements of the
            # block that contains the write (the engine's idiom: `pr.x = v; phrq_io->Set_x_on(...)`)
            has = False

            def unwrap(x):
                while T.is_node(x) and x[0] in ("Case", "Default", "Label"):
                    x = x[4] if x[0] == "Case" else (x[2] if x[0] == "Default" else x[3])
                return x

            def is_write(n_):
                return any(l_ == line and T.access_path(tg_)[0] == ("this",) and
                           [s_[1].split("::")[-1] for s_ in T.access_path(tg_)[1] if s_[0] == "f"] == opt.split(".")
                           for tg_, hw_, l_, n__ in T.writes(n_))
            # every block (innermost first) whose statement list contains the write: the statement holding the write or one of
            # the next two statements of that block calls the setter; at most two enclosing levels are considered
            levels = []
            for blk in T.walk(f["body"]):
                if blk[0] != "Compound":
                    continue
                sts = [unwrap(x) for x in blk[2] if T.is_node(x)]
                for i_, st_ in enumerate(sts):
                    if T.is_node(st_) and is_write(st_):
                        levels.append((sts, i_))
            for depth_, (sts, i_) in enumerate(levels[::-1][:2]):
                if depth_ == 0:
                    near = sts[i_: i_ + 3]
                else:
                    # one level out: only when the write sits in a small guard (`if (phast) { pr.logfile = FALSE; ... }`) and the
                    # setter follows that guard; the guard statement itself is not searched
                    if sts[i_][0] != "If":
                        break
                    near = sts[i_ + 1: i_ + 3]
                if any(T.callee_name(c) == setter for x in near if T.is_node(x) for c in T.calls(x)):
                    has = True
            if has:
                R.ok(RULE, inst, "paired with %s" % setter)
            elif f["name"] in mrow.get("reset_in_unload", []):
                # the reset side: the wrapper's unload path must call the setter instead
                if any(T.callee_name(c) == setter for c in T.calls(un["body"])) or mrow.get("resync"):
                    R.ok(RULE, inst, "reset counterpart: %s" % (("UnLoadDatabase calls " + setter) if not mrow.get("resync") else mrow["resync"]))
                else:
                    R.violation(RULE, inst, "%s resets %s but nothing on the reload path resets the PHRQ_io mirror (%s)" % (f["name"], opt, setter),
                                file=f["file"], line=line, function=f["q"])
            elif any(e["function"] == f["name"] and e["option"] == opt and e.get("kind") == "consulted-directly" for e in wt.get("mirror_exceptions", [])):
                e_ = [e for e in wt["mirror_exceptions"] if e["function"] == f["name"] and e["option"] == opt and e.get("kind") == "consulted-directly"][0]
                fq_ = "print::" + opt.split(".")[-1] if False else None
                okr = True
                for rq in e_["readers"]:
                    fs_ = P.fns_named(rq)
                    if not fs_ or not any(any(y[0] == "Member" and y[2].split("::")[-1] == opt.split(".")[-1] for y in T.walk(g_["body"])) for g_ in fs_):
                        okr = False
                if okr:
                    R.ok(RULE, inst, "exception: option consulted directly by %s" % ", ".join(e_["readers"]))
                else:
                    R.violation(RULE, inst, "listed exception no longer holds: %s does not read %s" % (e_["readers"], opt), file=f["file"], line=line, function=f["q"])
            elif any(e["function"] == f["name"] and e["option"] == opt for e in wt.get("mirror_exceptions", [])):
                # save/restore idiom: the last write restores a local that was initialised from the option
                ws = [(l, n) for tg, hw, l, n in T.writes(f["body"]) if T.access_path(tg)[0] == ("this",) and
                      [s2[1].split("::")[-1] for s2 in T.access_path(tg)[1] if s2[0] == "f"] == opt.split(".")]
                last = max(ws, key=lambda w: w[0])[1]
                rv = T.strip_casts(last[4]) if last[0] == "Bin" else None
                saved = None
                for x in T.walk(f["body"]):
                    if x[0] == "Decl":
                        for d in x[2]:
                            if T.is_node(d[2]) and T.access_path(d[2])[0] == ("this",) and \
                                    [s2[1].split("::")[-1] for s2 in T.access_path(d[2])[1] if s2[0] == "f"] == opt.split("."):
                                saved = d[0]
                if T.is_node(rv) and rv[0] == "Ref" and rv[2] == "local" and rv[3] == saved:
                    R.ok(RULE, inst, "save/restore idiom")
                else:
                    R.violation(RULE, inst, "listed save/restore exception no longer restores the saved value", file=f["file"], line=line, function=f["q"])
            else:
                R.violation(RULE, inst, "%s is written without updating its PHRQ_io mirror through %s" % (opt, setter), file=f["file"], line=line, function=f["q"])


def initorder_rule(P, R, survivors):
    """Phreeqc::init() must not read a member before it has assigned it: such a read sees the value left by the previous
    database / run (e.g. a threshold derived from a KNOBS value that is reset further down) and the reloaded instance differs
    from a fresh one, whose constructor ran init() on default-initialised members."""
    R.rule("C07.initorder", "Phreeqc::init assigns every member before it reads it (no value derived from pre-load state)", minimum=1)
    f = P.one("Phreeqc::init")

    def members(n):
        return [y[2] for y in T.walk(n) if y[0] == "Member" and T.is_node(y[3]) and T.strip_casts(y[3])[0] == "This"]
    written = set()
    nreads = 0
    bad = []
    for st in f["body"][2]:
        if not T.is_node(st):
            continue
        tg = set()
        for t, how, l, node in T.writes(st):
            r, steps = T.access_path(t)
            if r == ("this",) and steps:
                tg.add(steps[0][1])
        reads = set()
        for x in T.walk(st):
            if x[0] == "Bin" and x[2] in T.ASSIGN_OPS:
                reads |= set(members(x[4]))
                if x[2] != "=":
                    reads |= set(members(x[3]))
            elif x[0] == "Call":
                for a in x[4] or []:
                    reads |= set(members(a))
        for r in sorted(reads):
            nreads += 1
            if r not in written and r not in tg and r.split("::")[-1] not in survivors:
                bad.append((st[1], r))
        written |= tg
        for c in T.calls(st):
            if T.is_node(c[3]):
                for m in members(c[3]):
                    written.add(m)
    if nreads < 3:
        R.anchor_missing("C07.initorder", "Phreeqc::init: only %d member reads found" % nreads)
        return
    if not bad:
        R.ok("C07.initorder", "Phreeqc::init", "%d member reads, each after the member's own assignment" % nreads)
    for line, m in bad:
        R.violation("C07.initorder", "Phreeqc::init:%s" % m.split("::")[-1], "init() reads `%s` at line %d before assigning it: the value comes from before the load, so what is derived from it "
                    "differs between a reloaded and a fresh instance" % (m.split("::")[-1], line), file=f["file"], line=line, function=f["q"])


def unloadclear_rule(P, R):
    """"After LoadDatabase ... every result observable afterwards equals what a newly created instance gives": the error and warning texts
    of the instance are kept by two reporter objects; the strings and line views are only views of them (update_errors).  UnLoadDatabase,
    with which every load starts, must empty each reporter with Clear() - clearing a view leaves the text in the reporter, and test_db
    then takes the warnings of the last run before the load for warnings of the load."""
    RULE = "C07.unloadclear"
    R.rule(RULE, "UnLoadDatabase empties every reporter member (IErrorReporter *) with Clear()", minimum=2)
    rec = P.records.get("IPhreeqc")
    f = P.one("IPhreeqc::UnLoadDatabase")
    reps = [fld["name"] for fld in rec["fields"] if "IErrorReporter" in fld["type"]]
    if len(reps) < 2:
        R.anchor_missing(RULE, "reporter members of IPhreeqc: %s" % reps)
        return
    cleared = set()
    for c in T.calls(f["body"]):
        if T.callee_name(c) == "Clear" and T.call_obj(c) is not None:
            for y in T.walk(T.call_obj(c)):
                if y[0] == "Member":
                    cleared.add(y[2].split("::")[-1])
    for r_ in reps:
        if r_ in cleared:
            R.ok(RULE, r_, "Clear() in UnLoadDatabase")
        else:
            R.violation(RULE, r_, "UnLoadDatabase does not call %s->Clear(): the text of the last run before the load survives in the reporter and comes back as the load's own "
                        "(test_db re-adds what the reporter holds)" % r_, file=f["file"], line=f["line"], function=f["q"])
