"""C01 – speciation results satisfy the database's equilibrium and balance equations.

The property as a whole is numerical (it quantifies over the solution of the speciation equations) and is NOT decided.  Three
of its clauses have parts that are closed-form code and table agreement; only those parts are decided:
  C01.logk     "the equilibrium constant the database text prescribes at the solution temperature": Phreeqc::k_calc, the single
               function that turns a stored log K record into log K(T, P), equals - as an exact rational function of the record
               slots, T, log10 T, the gas constant and ln 10 -
                   logK_T0 - delta_h (298.15 - T) / (ln10 R T 298.15) + A1 + A2 T + A3/T + A4 log10 T + A5/T^2 + A6 T^2
               and its pressure correction  - delta_v 1e-9 (P - Pref) / (ln10 R T).  Locals are inlined from their
               initialisers; the gas constant and ln 10 literals are recognised by value.
  C01.addlogk  named expressions (-add_logk name coef) are folded into the log K record slot by slot: every accumulation in
               add_other_logk / add_logks is  target[j] += named[j] * coef  with the SAME slot index on both sides, and the slot
               ranges cover logK_T0, delta_h, T_A1..T_A6 and delta_v.. (the analytical coefficients replace logK_T0/delta_h only
               when the named expression has any)
  C01.select   which half of the record is used: select_log_k_expression / add_other_logk decide "has an analytical expression"
               by examining ALL six coefficients (the loop over T_A1..T_A6 leaves only from inside the non-zero test), then copy
               slot j to slot j: the analytical half replaces logK_T0 / delta_h (zeroed) or vice versa, delta_v.. always copied
  C01.mbform   "species molalities weighted by stoichiometry add up to the reported element totals": build_model forms the
               solver's mole-balance sums and the species list used for summing and printing from the same formula of each
               species: both blocks test `<species>.<vector>.size() == 0` and otherwise add THAT SAME vector (the alternate
               -mole_balance formula), so the reported totals book a species where the solver balances it
  C01.recycle  "the K(T) the database text prescribes": a species or phase that is defined again under an existing name is recycled
               by its store function; the recycled record is re-initialised (<x>_free followed by <x>_init) so that nothing of
               the earlier definition - log K, delta_h, analytical terms, critical constants - leaks into the new one
  C01.kcall    unit discipline at every call of k_calc: the temperature argument is a Kelvin quantity (an expression that
               mentions a Celsius quantity - tc, tc_x, Get_tc() - must be that quantity + 273.15) and the pressure argument is
               an atmosphere quantity times 101325 (or the reference 101325 itself)
  C01.slots    reader/writer agreement on the log K record: every call of read_log_k_only / read_delta_h_only /
               read_analytical_expression_only (species, phases, exchange and surface species, named expressions ...) stores
               into the slot k_calc reads for that datum (logK_T0 / delta_h / T_A1..T_A6); the six analytical coefficients are
               consecutive enumerators filled in order by one sscanf
  C01.si       "SI = log IAP - log K": in every function that reports a saturation index (BASIC SI/SR, the three output
               writers, the system-total helper) the ion activity product is accumulated as coef * log a (log a spelled la
               or lm + lg) over the phase's reaction and SI is IAP - lk
  C01.readout  "log a = log m + log gamma", activity = 10^(log activity), gamma = 10^(log gamma), SR = 10^SI, pH = -log a(H+):
               the paired BASIC read-out functions and the pH writers agree as exact rational functions of the species fields
  C01.slotloops every loop over the analytic log K slots runs from T_A1 through T_A6 inclusive (the sixth coefficient is converted, reset, copied
               and accumulated like the other five)
  C01.totunits  TOT is a molality, TOTMOLE an amount: every branch of Phreeqc::total divides the model amount by mass_water_aq_x, no branch
               of Phreeqc::total_mole does (unit typestate over the two sibling case analyses)
  C01.rewrite  rewriting of a reaction to the model's master species: the couple selected for a rewritten secondary master replaces
               exactly (token coefficient) x coef_e electrons, in every branch of write_mass_action_eqn_x (polynomial identity)
Not decided: everything that depends on the numerical solution (mass action per species, element totals, charge balance, ionic
strength, alkalinity), the rewriting of reactions to master species, delta_h unit conversion.
"""
from fractions import Fraction

from .. import tree as T
from .. import ratfun as RF

PROP = "C01"
EXPLANATION = __doc__

LN10 = 2.302585092994046
RGAS = 8.3147e-3


def subscript_symbol(n):
    """l_logk[enum] (built-in subscript) -> enumerator name"""
    n = T.strip_casts(n)
    if T.is_node(n) and n[0] in ("Index", "Subscript", "ArraySubscript"):
        idx = T.strip_casts(n[3] if len(n) > 3 else None)
        if T.is_node(idx) and idx[0] == "Ref" and idx[2] == "enum":
            return idx[3].split("::")[-1]
    return None


class Conv:
    """expression tree -> rational function with local inlining, enum-indexed subscripts, opaque log10 and named literals"""

    def __init__(self, f, field_symbols=True):
        self.locals = {}
        for x in T.walk(f["body"]):
            if x[0] == "Decl":
                for d in x[2]:
                    if T.is_node(d[2]):
                        self.locals.setdefault(d[0], []).append(d[2])

    def lit(self, n):
        txt = str(n[3]).rstrip("fFlL")
        v = float(txt)
        if abs(v - LN10) < 1e-9:
            return RF.Rat.sym("LN10")
        if abs(v - RGAS) / RGAS < 1e-4:
            return RF.Rat.sym("R")
        return RF.Rat.const(Fraction(txt))

    def conv(self, n):
        n = T.strip_casts(n)
        if not T.is_node(n):
            raise RF.NotRational("empty")
        if n[0] == "Lit":
            try:
                return self.lit(n)
            except ValueError:
                raise RF.NotRational("literal")
        s = subscript_symbol(n)
        if s is not None:
            return RF.Rat.sym(s)
        if n[0] == "Ref" and n[2] == "local" and len(self.locals.get(n[3], [])) == 1:
            return self.conv(self.locals[n[3]][0])
        if n[0] == "Ref" and n[2] in ("local", "param"):
            return RF.Rat.sym(n[3])
        if n[0] == "Member" and n[2] == "Phreeqc::LOG_10":
            return RF.Rat.sym("LN10")        # defined once as log(10.0) in Phreeqc::init (checked by logk_rule)
        if n[0] == "Member":
            return RF.Rat.sym(leaf_name(n))
        if n[0] == "Un" and n[2] == "*":
            return self.conv(n[3])
        if n[0] == "Un" and n[2] in ("-", "+"):
            v = self.conv(n[3])
            return -v if n[2] == "-" else v
        if n[0] == "Bin" and n[2] in ("+", "-", "*", "/"):
            a, b = self.conv(n[3]), self.conv(n[4])
            return a + b if n[2] == "+" else a - b if n[2] == "-" else a * b if n[2] == "*" else a / b
        if n[0] == "Call" and T.callee_name(n) in ("log10",) and len(n[4]) == 1:
            inner = self.conv(n[4][0])
            return RF.Rat.sym("log10[%r]" % (inner,))
        raise RF.NotRational("%s %s" % (n[0], T.text(n)[:40]))


def num_value(n):
    n = T.strip_casts(n)
    if T.is_node(n) and n[0] == "Lit" and n[2] in ("int", "float"):
        try:
            return float(str(n[3]).rstrip("fFlL"))
        except ValueError:
            return None
    return None


def leaf_name(n):
    """species/phase field access -> symbol: the field name, qualified by a global species pointer when the base is one"""
    f = n[2].split("::")[-1]
    b = T.strip_casts(n[3]) if T.is_node(n[3]) else None
    if T.is_node(b) and b[0] == "Member" and b[2].split("::")[-1] in ("s_hplus", "s_h2o", "s_eminus"):
        return b[2].split("::")[-1] + "." + f
    return f


def slotloops_rule(P, R):
    """The analytical expression of a log K has six coefficients, slots T_A1 .. T_A6 of the log K vector (the T^2 term T_A6 was added
    last).  Every loop that walks the analytic slots (reset, copy, unit conversion, accumulation, the `is there an analytic expression`
    test) starts at T_A1 and includes T_A6; a loop that stops before T_A6 treats the sixth coefficient differently from the other five."""
    RULE = "C01.slotloops"
    R.rule(RULE, "every loop over the analytic log K slots runs from T_A1 through T_A6 inclusive", minimum=6)
    n = 0
    for key, f in sorted(P.functions.items()):
        if not f.get("body"):
            continue
        for lp in T.walk(f["body"]):
            if lp[0] != "For" or not T.is_node(lp[2]) or not T.is_node(lp[3]):
                continue
            starts = any(y[0] == "Ref" and y[2] == "enum" and y[3].split("::")[-1] == "T_A1" for y in T.walk(lp[2]))
            if not starts:
                continue
            c = T.strip_casts(lp[3])
            ends = [y for y in T.walk(c) if y[0] == "Ref" and y[2] == "enum" and y[3].split("::")[-1] == "T_A6"]
            if not ends or c[0] != "Bin":
                continue
            n += 1
            inst = "%s@%d" % (f["q"].split("::")[-1], lp[1])
            if c[2] == "<=":
                R.ok(RULE, inst, "T_A1 .. T_A6 inclusive")
            else:
                R.violation(RULE, inst, "the loop over the analytic slots ends with `%s`: the sixth coefficient (T^2 term) is skipped - it is not converted / reset / copied like the other "
                            "five, so a six-term expression gives a different log K(T) than its text" % T.text(c)[:30], file=f["file"], line=lp[1], function=f["q"])
    if n < 6:
        R.anchor_missing(RULE, "only %d loops over T_A1 .. T_A6 found" % n)


def totunits_rule(P, R):
    """"the species molalities add up to the reported element totals": BASIC TOT("x") is a molality, TOTMOLE("x") an amount.  The two
    functions behind them (Phreeqc::total / total_mole) are the same case analysis; every model quantity total() returns - total_h_x,
    total_o_x, cb_x, master->total, in every branch including the sum over the valence states of a redox element - is divided by the mass
    of water, and none is in total_mole().  A branch that misses the division is right only for exactly 1 kg of water."""
    RULE = "C01.totunits"
    R.rule(RULE, "Phreeqc::total returns every amount divided by mass_water_aq_x (TOT is a molality); total_mole divides none (TOTMOLE is an amount)", minimum=10)
    AMOUNTS = ("master::total", "Phreeqc::total_h_x", "Phreeqc::total_o_x", "Phreeqc::cb_x")
    for q, per_kg in (("Phreeqc::total", True), ("Phreeqc::total_mole", False)):
        fs = [g for g in P.fns_named(q) if g.get("body") and len(g["pnames"]) == 1]
        if not fs:
            R.anchor_missing(RULE, "%s not found" % q)
            continue
        f = fs[0]
        where = dict(file=f["file"], function=f["q"])
        exprs = [(x[1], x[2]) for x in T.walk(f["body"]) if x[0] == "Return" and T.is_node(x[2])]
        exprs += [(x[1], x[4]) for x in T.walk(f["body"]) if x[0] == "Bin" and x[2] in ("=", "+=") and T.strip_casts(x[3])[0] == "Ref" and T.strip_casts(x[3])[3] == "t"]
        n = 0
        for line, e in exprs:
            amts = [y for y in T.walk(e) if y[0] == "Member" and y[2] in AMOUNTS]
            if not amts:
                continue
            n += 1
            e0 = T.strip_casts(e)
            while e0[0] == "Paren":
                e0 = T.strip_casts(e0[2])
            divided = e0[0] == "Bin" and e0[2] == "/" and any(y[0] == "Member" and y[2] == "Phreeqc::mass_water_aq_x" for y in T.walk(e0[4])) \
                and any(y[0] == "Member" and y[2] in AMOUNTS for y in T.walk(e0[3]))
            inst = "%s@%d" % (q.split("::")[-1], line)
            if divided == per_kg:
                R.ok(RULE, inst, "`%s`" % T.text(e)[:50])
            elif per_kg:
                R.violation(RULE, inst, "Phreeqc::total returns `%s`, an amount in moles, where every sibling branch returns amount / mass_water_aq_x: TOT of this kind of name is a "
                            "molality only when the solution holds exactly 1 kg of water, so TOT(\"C\") disagrees with the sum of the species molalities and with TOT of its "
                            "valence states after -water, evaporation or a reaction that changes the water mass" % T.text(e)[:50], line=line, **where)
            else:
                R.violation(RULE, inst, "Phreeqc::total_mole divides `%s` by the mass of water: TOTMOLE would return a molality" % T.text(e)[:50], line=line, **where)
        if n < 5:
            R.anchor_missing(RULE, "%s: only %d amount-returning expressions found" % (q, n))


def rewrite_rule(P, R):
    """Rewriting a mass-action equation to the master species of the model (write_mass_action_eqn_x): a token that is a rewritten
    secondary master (Fe+3 when total Fe is entered) is replaced by its defining reaction times the token's coefficient c, and the
    e- that reaction brings - c * coef_e of them - by the redox couple selected for the element.  Stoichiometry requires that every
    addition of the couple's reaction carries exactly c * coef_e (as a polynomial identity in the code's own symbols): with another
    multiplier only part of the electrons is replaced and polynuclear species / multi-atom phases (Fe2(OH)2+4, Hematite) violate
    their database mass-action equation whenever the couple's pe differs from the solution pe."""
    from .. import ratfun as RF
    RULE = "C01.rewrite"
    R.rule(RULE, "write_mass_action_eqn_x: the redox couple replaces exactly c * coef_e electrons of a rewritten secondary master (every branch)", minimum=3)
    f = P.one("Phreeqc::write_mass_action_eqn_x")
    where = dict(file=f["file"], function=f["q"])
    blk = None
    for x in T.walk(f["body"]):
        if x[0] == "If" and any(y[0] == "Member" and y[2] == "master::in" for y in T.walk(x[2])) and any(T.callee_name(c) == "rxn_find_coef" for c in T.calls(x[3])):
            blk = x
    if blk is None:
        R.anchor_missing(RULE, "write_mass_action_eqn_x: the REWRITE block (rxn_find_coef of e-) not found")
        return

    def sym(n):
        n = T.strip_casts(n)
        if n[0] == "Ref" and n[2] in ("local", "param"):
            return n[3]
        return T.text(n).replace(" ", "")

    def conv(n):
        n = T.strip_casts(n)
        if n[0] == "Lit":
            from fractions import Fraction
            return RF.Rat.const(Fraction(str(n[3]).rstrip("fFlL")))
        if n[0] == "Bin" and n[2] in "+-*/":
            a, b = conv(n[3]), conv(n[4])
            return a + b if n[2] == "+" else a - b if n[2] == "-" else a * b if n[2] == "*" else a / b
        if n[0] == "Un" and n[2] == "-":
            return -conv(n[3])
        return RF.Rat.sym(sym(n))
    adds = [c for c in T.calls(blk[3]) if T.callee_name(c) == "trxn_add" and len(c[4]) >= 2]
    first = [c for c in adds if any(y[0] == "Member" and y[2] == "master::rxn_secondary" for y in T.walk(c[4][0]))]
    if len(first) != 1:
        R.anchor_missing(RULE, "the addition of rxn_secondary was not found exactly once in the REWRITE block")
        return
    c0 = conv(first[0][4][1])
    ce = None
    for x in T.walk(blk[3]):
        if x[0] == "Bin" and x[2] == "=" and any(T.callee_name(c) == "rxn_find_coef" for c in T.calls(x[4])):
            ce = sym(x[3])
    if ce is None:
        R.anchor_missing(RULE, "coef_e = rxn_find_coef(.., \"e-\") not found")
        return
    want = c0 * RF.Rat.sym(ce)
    n = 0
    for c in adds:
        if c is first[0]:
            continue
        n += 1
        inst = "couple@%d" % c[1]
        try:
            got = conv(c[4][1])
        except Exception as e:
            R.anchor_missing(RULE, "%s: multiplier `%s` is not a rational expression" % (inst, T.text(c[4][1])[:40]))
            continue
        if got.same(want):
            R.ok(RULE, inst, "multiplier = (coefficient of the token) * coef_e")
        else:
            R.violation(RULE, inst, "the redox couple's reaction is added with multiplier `%s`; the rewritten master brought `%s * %s` electrons: only part of them is replaced, so "
                        "species and phases with more than one atom of the element break their mass-action equation when the couple's pe differs from the solution pe"
                        % (T.text(c[4][1])[:50], T.text(first[0][4][1])[:30], ce), line=c[1], **where)
    if n < 2:
        R.anchor_missing(RULE, "only %d additions of the couple's reaction found (found / not-yet-rewritten branches)" % n)
    R.ok(RULE, "secondary@%d" % first[0][1], "rxn_secondary added with the token's coefficient")


def run(P, R, tier):
    slotloops_rule(P, R)
    totunits_rule(P, R)
    rewrite_rule(P, R)
    R.undecided += ["mass-action residual of every aqueous species at the reported solution (numerical)",
                    "element totals, charge balance, ionic strength and alkalinity sums (numerical)",
                    "rewriting of reactions to primary/secondary master species; delta_h unit conversion"]
    logk_rule(P, R)
    addlogk_rule(P, R)
    select_rule(P, R)
    mbformula_rule(P, R)
    recycle_rule(P, R)
    kcall_rule(P, R)
    slots_rule(P, R)
    si_rule(P, R)
    readout_rule(P, R)
    logkdone_rule(P, R)
    mbnorm_rule(P, R)
    tidyonce_rule(P, R)
    calcalk_rule(P, R)
    loopindex_rule(P, R)


# ------------------------------------------------------------------------------------------ log K(T, P)

def logk_rule(P, R):
    R.rule("C01.logk", "k_calc equals the van't Hoff + analytical-expression definition of log K(T) and its pressure correction as an exact rational function", minimum=3)
    f = P.one("Phreeqc::k_calc")
    where = dict(file=f["file"], function=f["q"])
    cv = Conv(f)
    tname, pname = f["pnames"][1], f["pnames"][2]
    decl = [d for x in T.walk(f["body"]) if x[0] == "Decl" for d in x[2] if d[0] == "lk" and T.is_node(d[2])]
    rets = [x for x in T.walk(f["body"]) if x[0] == "Return"]
    if len(decl) != 1 or not rets or T.text(rets[-1][2]) != "lk":
        R.anchor_missing("C01.logk", "k_calc: `LDBLE lk = <formula>; ... return lk;` not found")
        return
    defs = [(g["q"], T.text(x[4])) for g in P.functions.values() for x in T.walk(g["body"])
            if x[0] == "Bin" and x[2] == "=" and T.strip_casts(x[3])[0] == "Member" and T.strip_casts(x[3])[2] == "Phreeqc::LOG_10"]
    natural = [d for d in defs if d[0] == "Phreeqc::init"]
    if len(natural) == 1 and natural[0][1].replace(" ", "") in ("log(10.0)", "log(10)", "log(10.)") and all(d[0] in ("Phreeqc::init", "Phreeqc::InternalCopy") for d in defs):
        R.ok("C01.logk", "LOG_10", "defined once as log(10.0) in Phreeqc::init")
    else:
        R.violation("C01.logk", "LOG_10", "the member LOG_10 used as ln 10 by k_calc is defined as %s" % defs[:3], line=f["line"], **where)
    L = "log10[%r]" % (RF.Rat.sym(tname),)
    ref = RF.parse("logK_T0 - delta_h*(298.15 - T)/(LN10*T*R*298.15) + T_A1 + T_A2*T + T_A3/T + T_A4*LG + T_A5/(T*T) + T_A6*T*T")
    try:
        got = cv.conv(decl[0][2])
    except (RF.NotRational, ZeroDivisionError) as e:
        R.anchor_missing("C01.logk", "k_calc: the log K expression is not rational (%s)" % e)
        return
    got = rename(got, {tname: "T", L: "LG"})
    if got.same(ref):
        R.ok("C01.logk", "k_calc:temperature", "logK_T0 - dH(298.15-T)/(ln10 R T 298.15) + A1 + A2 T + A3/T + A4 log10 T + A5/T^2 + A6 T^2")
    else:
        R.violation("C01.logk", "k_calc:temperature", "log K(T) = %s is not the van't Hoff + analytical expression the database text prescribes" % T.text(decl[0][2])[:300],
                    line=decl[0][3] if len(decl[0]) > 3 and isinstance(decl[0][3], int) else f["line"], **where)
    # pressure correction: if (delta_p > 0) lk -= delta_v * 1e-9 * delta_p / (LN10 * R * T)
    corr = [x for x in T.walk(f["body"]) if x[0] == "Bin" and x[2] in ("-=", "+=") and T.text(x[3]) == "lk"]
    others = [x for x in T.walk(f["body"]) if x[0] == "Bin" and x[2] in T.ASSIGN_OPS and T.text(x[3]) == "lk" and x not in corr]
    if others:
        R.violation("C01.logk", "k_calc:other-writes", "log K is modified by a further statement (line %d) outside the defined temperature and pressure terms" % others[0][1],
                    line=others[0][1], **where)
    if len(corr) != 1:
        R.anchor_missing("C01.logk", "k_calc: expected exactly one pressure-correction statement on lk, found %d" % len(corr))
        return
    try:
        c = cv.conv(corr[0][4])
    except (RF.NotRational, ZeroDivisionError) as e:
        R.anchor_missing("C01.logk", "k_calc: pressure correction not rational (%s)" % e)
        return
    if corr[0][2] == "+=":
        c = -c
    c = rename(c, {tname: "T", pname: "P"})
    # the reference pressure literal is kept as spelled: compare modulo the symbol PREF = that literal
    refp = None
    for lit in set(str(x[3]) for x in T.walk(f["body"]) if x[0] == "Lit" and x[2] == "float"):
        try:
            cand = RF.parse("delta_v*0.000000001*(P - %s)/(LN10*R*T)" % Fraction(lit.rstrip("fFlL")).limit_denominator(10**12).numerator) if False else None
        except Exception:
            cand = None
    # build reference with the inlined delta_p definition
    dp = cv.locals.get("delta_p", [])
    if len(dp) == 1:
        dpr = rename(cv.conv(dp[0]), {pname: "P"})
        want = RF.Rat.sym("delta_v") * RF.Rat.const(Fraction("1e-9")) * dpr / (RF.Rat.sym("LN10") * RF.Rat.sym("R") * RF.Rat.sym("T"))
        # delta_p must be P minus a positive constant
        lin = (dpr - RF.Rat.sym("P"))
        const_ok = not lin.symbols()
        if c.same(want) and const_ok:
            R.ok("C01.logk", "k_calc:pressure", "- delta_v 1e-9 (P - Pref)/(ln10 R T)")
        else:
            R.violation("C01.logk", "k_calc:pressure", "the pressure correction %s is not delta_v 1e-9 (P - Pref)/(ln10 R T)" % T.text(corr[0][4])[:200], line=corr[0][1], **where)
    else:
        R.anchor_missing("C01.logk", "k_calc: local delta_p not found")


def addlogk_rule(P, R):
    R.rule("C01.addlogk", "named log K expressions are added slot by slot: target[j] += named[j] * coef with the same slot on both sides", minimum=5)
    n = 0
    for q in ("Phreeqc::add_other_logk", "Phreeqc::add_logks"):
        f = P.one(q)
        where = dict(file=f["file"], function=f["q"])
        for x in T.walk(f["body"]):
            if x[0] == "Bin" and x[2] in T.ASSIGN_OPS:
                t = T.strip_casts(x[3])
                if t[0] != "Index":
                    continue
                n += 1
                inst = "%s@%d" % (q.split("::")[-1], x[1])
                r = T.strip_casts(x[4])
                okk = False
                why = ""
                if x[2] != "+=":
                    why = "the slot is overwritten (`%s`), not accumulated" % x[2]
                elif r[0] == "Bin" and r[2] == "*":
                    sides = [T.strip_casts(r[3]), T.strip_casts(r[4])]
                    idx = [s_ for s_ in sides if s_[0] == "Index"]
                    cf = [s_ for s_ in sides if s_[0] == "Ref" and s_[3] == "coef"]
                    if len(idx) == 1 and len(cf) == 1:
                        if T.text(idx[0][3]) == T.text(t[3]):
                            okk = True
                        else:
                            why = "slot %s of the target receives slot %s of the named expression" % (T.text(t[3]), T.text(idx[0][3]))
                    else:
                        why = "the added term is not <named slot> * coef"
                else:
                    why = "the added term is not <named slot> * coef"
                if okk:
                    R.ok("C01.addlogk", inst, "[%s] += named[%s] * coef" % (T.text(t[3]), T.text(t[3])))
                else:
                    R.violation("C01.addlogk", inst, "`%s %s %s`: %s" % (T.text(x[3])[:40], x[2], T.text(x[4])[:60], why), line=x[1], **where)
    # slot ranges of add_other_logk
    f = P.one("Phreeqc::add_other_logk")
    rng = []
    for x in T.walk(f["body"]):
        if x[0] == "For" and any(w[0] == "Bin" and w[2] == "+=" for w in T.walk(x[5])) and not any(w[0] == "For" for w in T.walk(x[5])):
            rng.append((T.text(x[2]).replace(" ", ""), T.text(x[3]).replace(" ", "")))
    single = sorted(T.text(T.strip_casts(x[3])[3]) for x in T.walk(f["body"]) if x[0] == "Bin" and x[2] == "+=" and T.strip_casts(x[3])[0] == "Index" and T.strip_casts(T.strip_casts(x[3])[3])[0] == "Ref"
                    and T.strip_casts(T.strip_casts(x[3])[3])[2] == "enum")
    want_rng = [("j=T_A1", "j<=T_A6"), ("j=delta_v", "j<MAX_LOG_K_INDICES")]
    got = [(a.replace("(int)", ""), b.replace("(int)", "")) for a, b in rng]
    # MAX_LOG_K_INDICES is an enumerator or macro: accept either spelling by suffix
    okr = len(got) == 2 and got[0] == want_rng[0] and got[1][0] == want_rng[1][0] and got[1][1].startswith("j<") and single == ["delta_h", "logK_T0"]
    if okr:
        R.ok("C01.addlogk", "add_other_logk:coverage", "T_A1..T_A6 (if analytic) else logK_T0 and delta_h; delta_v.. always")
    else:
        R.violation("C01.addlogk", "add_other_logk:coverage", "the slots folded in by add_other_logk are no longer {T_A1..T_A6 | logK_T0, delta_h} + delta_v..: loops %s, single slots %s" % (got, single),
                    file=f["file"], line=f["line"], function=f["q"])
    if n < 4:
        R.anchor_missing("C01.addlogk", "only %d slot accumulations found in add_other_logk / add_logks" % n)


def select_rule(P, R):
    R.rule("C01.select", "the analytical-expression test examines all six coefficients; slots are copied index to index", minimum=6)
    for q in ("Phreeqc::select_log_k_expression", "Phreeqc::add_other_logk"):
        f = P.one(q)
        where = dict(file=f["file"], function=f["q"])
        anyloops = []
        for x in T.walk(f["body"]):
            if x[0] == "For" and "T_A1" in T.text(x[2]) and "T_A6" in T.text(x[3]):
                body = x[5][2] if x[5][0] == "Compound" else [x[5]]
                tests = [s_ for s_ in body if T.is_node(s_) and s_[0] == "If" and any(y[0] == "Bin" and y[2] == "!=" for y in T.walk(s_[2]))
                         and any(w[0] == "Bin" and w[2] == "=" and T.lit_value(w[4]) == 1 for w in T.walk(s_[3]))]
                if tests:
                    anyloops.append((x, body, tests))
        if not anyloops:
            R.anchor_missing("C01.select", "%s: the loop that looks for a non-zero analytical coefficient was not found" % q)
            continue
        for x, body, tests in anyloops:
            inst = "%s:any-coefficient@%d" % (q.split("::")[-1], x[1])
            early = [s_ for s_ in body if T.is_node(s_) and s_[0] in ("Break", "Return", "Goto")]
            if early:
                R.violation("C01.select", inst, "the loop over T_A1..T_A6 leaves unconditionally after the first coefficient (line %d): an expression whose A1 is 0 is taken for "
                            "absent and log_k/delta_h is used instead of the analytical expression the database prescribes" % early[0][1], line=early[0][1], **where)
            else:
                R.ok("C01.select", inst, "leaves the loop only from inside the non-zero test")
    f = P.one("Phreeqc::select_log_k_expression")
    where = dict(file=f["file"], function=f["q"])
    n = 0
    for x in T.walk(f["body"]):
        if x[0] == "Bin" and x[2] == "=" and T.strip_casts(x[3])[0] == "Index":
            t = T.strip_casts(x[3])
            r = T.strip_casts(x[4])
            n += 1
            inst = "select:%s@%d" % (T.text(t[3]), x[1])
            if r[0] == "Index":
                if T.text(r[3]) == T.text(t[3]):
                    R.ok("C01.select", inst, "slot copied index to index")
                else:
                    R.violation("C01.select", inst, "slot %s of the selected record is filled from slot %s of the source" % (T.text(t[3]), T.text(r[3])), line=x[1], **where)
            elif r[0] == "Lit" and float(str(r[3]).rstrip("fFlL")) == 0.0:
                R.ok("C01.select", inst, "unused half zeroed")
            else:
                R.violation("C01.select", inst, "unexpected value `%s` stored into the selected record" % T.text(x[4])[:40], line=x[1], **where)
    if n < 6:
        R.anchor_missing("C01.select", "select_log_k_expression: only %d slot stores found" % n)


def mbformula_rule(P, R):
    R.rule("C01.mbform", "build_model: the mole-balance sums and the reporting list use the same (alternate) formula vector of a species", minimum=2)
    f = P.one("Phreeqc::build_model")
    where = dict(file=f["file"], function=f["q"])
    sites = []
    for x in T.walk(f["body"]):
        if x[0] == "If" and T.is_node(x[4]):
            c = T.strip_casts(x[2])
            if c[0] == "Bin" and c[2] == "==" and T.lit_value(c[4]) == 0:
                l = T.strip_casts(c[3])
                if l[0] == "Call" and T.callee_name(l) == "size" and T.is_node(l[3]):
                    v = T.strip_casts(l[3])
                    if v[0] == "Member" and v[2].startswith("species::"):
                        adds = [k for k in T.calls(x[4]) if T.callee_name(k) == "add_elt_list" and k[4]]
                        if adds:
                            a0 = T.strip_casts(adds[0][4][0])
                            sites.append((x, v[2], a0[2] if a0[0] == "Member" else T.text(a0), adds[0]))
    if len(sites) < 2:
        R.anchor_missing("C01.mbform", "build_model: fewer than two `if (<formula>.size() == 0) ... else add_elt_list(<formula>)` blocks found")
        return
    vecs = set(t for _, t, _, _ in sites)
    for x, tested, added, call in sites:
        inst = "build_model@%d" % x[1]
        if tested == added and len(vecs) == 1:
            R.ok("C01.mbform", inst, "tests and adds %s" % tested.split("::")[-1])
        elif tested != added:
            R.violation("C01.mbform", inst, "the block tests %s but adds %s: species with an alternate mole-balance formula are summed under a different element than the solver "
                        "balances them under" % (tested.split("::")[-1], added.split("::")[-1]), line=call[1], **where)
        else:
            R.violation("C01.mbform", inst, "the blocks of build_model use different formula vectors %s" % sorted(v.split("::")[-1] for v in vecs), line=call[1], **where)


def recycle_rule(P, R):
    R.rule("C01.recycle", "store functions that recycle an existing species / phase record re-initialise it (<x>_free then <x>_init)", minimum=2)
    n = 0
    for q in ("Phreeqc::s_store", "Phreeqc::phase_store"):
        f = P.one(q)
        stem = q.split("::")[-1].replace("_store", "")
        for blk in T.walk(f["body"]):
            if blk[0] != "Compound":
                continue
            stm = [s_ for s_ in blk[2] if T.is_node(s_)]
            for i, st in enumerate(stm):
                if st[0] == "Call" and T.callee_name(st) == stem + "_free" and st[4]:
                    n += 1
                    arg = T.text(st[4][0])
                    inst = "%s:%s_free@%d" % (q.split("::")[-1], stem, st[1])
                    if any(t_[0] == "Call" and T.callee_name(t_) == stem + "_init" and t_[4] and T.text(t_[4][0]) == arg for t_ in stm[i + 1:]):
                        R.ok("C01.recycle", inst, "%s_init(%s) follows" % (stem, arg))
                    else:
                        R.violation("C01.recycle", inst, "%s recycles an existing record with %s_free(%s) but does not re-initialise it: log K data of the earlier definition that the new "
                                    "definition does not mention (analytical expression, delta_h, critical constants) stay in force" % (q.split("::")[-1], stem, arg),
                                    file=f["file"], line=st[1], function=f["q"])
    if n < 2:
        R.anchor_missing("C01.recycle", "recycling branches of s_store / phase_store not found (%d)" % n)


CELSIUS = ("tc_x", "tc", "Get_tc", "tc1", "tc2")
PA_PER_ATM = Fraction(101325)


def kcall_rule(P, R):
    R.rule("C01.kcall", "every call of k_calc passes a Kelvin temperature and a pressure in pascal", minimum=30)
    for key, f in sorted(P.functions.items()):
        calls = [c for c in T.calls(f["body"]) if T.callee_q(c) == "Phreeqc::k_calc" and len(c[4]) == 3]
        if not calls:
            continue
        assigns = {}
        for x in T.walk(f["body"]):
            if x[0] == "Bin" and x[2] in T.ASSIGN_OPS:
                t = T.strip_casts(x[3])
                if t[0] == "Ref" and t[2] in ("local", "param"):
                    assigns.setdefault(t[3], []).append(x)
            if x[0] == "Decl":
                for d in x[2]:
                    if T.is_node(d[2]):
                        assigns.setdefault(d[0], []).append(["Bin", x[1], "=", ["Ref", x[1], "local", d[0], d[1]], d[2]])

        def celsius_leaves(n):
            out = []
            for y in T.walk(n):
                if y[0] == "Member" and y[2].split("::")[-1] in CELSIUS:
                    out.append(y[2].split("::")[-1])
                if y[0] == "Ref" and y[2] in ("local", "param") and y[3] in CELSIUS:
                    out.append(y[3])
                if y[0] == "Call" and T.callee_name(y) in CELSIUS:
                    out.append(T.callee_name(y))
            return out

        def conv_c(n):
            """rational function in which Celsius leaves become the symbol C"""
            n = T.strip_casts(n)
            if n[0] == "Lit":
                return RF.Rat.const(Fraction(str(n[3]).rstrip("fFlL")))
            if n[0] == "Member" or (n[0] == "Ref" and n[2] in ("local", "param")):
                nm = n[2].split("::")[-1] if n[0] == "Member" else n[3]
                return RF.Rat.sym("C" if nm in CELSIUS else nm)
            if n[0] == "Call" and T.callee_name(n) in CELSIUS:
                return RF.Rat.sym("C")
            if n[0] == "Bin" and n[2] in ("+", "-", "*", "/"):
                a, b = conv_c(n[3]), conv_c(n[4])
                return a + b if n[2] == "+" else a - b if n[2] == "-" else a * b if n[2] == "*" else a / b
            if n[0] == "Un" and n[2] == "-":
                return -conv_c(n[3])
            raise RF.NotRational(T.text(n)[:40])

        def kelvin_ok(n, depth=0):
            cl = celsius_leaves(n)
            if cl:
                try:
                    g = conv_c(n)
                except (RF.NotRational, ValueError):
                    return False, "mentions the Celsius quantity %s in a non-affine way" % cl[0]
                # C + 273.15 (+- a finite-difference offset that does not involve C)
                rest = g - RF.Rat.sym("C") - RF.Rat.const(Fraction("273.15"))
                if "C" in rest.symbols():
                    return False, "is not <Celsius> + 273.15"
                if rest.symbols():
                    return False, "is not <Celsius> + 273.15"
                if abs(float(list(rest.n.t.values())[0]) if rest.n.t else 0.0) > 5:
                    return False, "is offset from <Celsius> + 273.15"
                return True, "%s + 273.15" % cl[0]
            n0 = T.strip_casts(n)
            if depth < 2 and n0[0] == "Ref" and n0[2] == "local" and n0[3] in assigns:
                for a in assigns[n0[3]]:
                    if a[2] != "=":
                        continue
                    okk, why = kelvin_ok(a[4], depth + 1)
                    if not okk:
                        return False, "local %s %s" % (n0[3], why)
            return True, "no Celsius quantity"

        def pascal_ok(n):
            n0 = T.strip_casts(n)
            try:
                g = conv_c(n0)
            except (RF.NotRational, ValueError):
                g = None
            if g is not None:
                sy = sorted(g.symbols())
                if not sy and g.same(RF.Rat.const(PA_PER_ATM)):
                    return True, "reference pressure 101325 Pa"
                if len(sy) == 1 and g.same(RF.Rat.sym(sy[0]) * RF.Rat.const(PA_PER_ATM)):
                    return True, "%s * 101325" % sy[0]
            if n0[0] == "Ref" and n0[2] == "local":
                for a in assigns.get(n0[3], []):
                    if a[2] == "*=" and T.strip_casts(a[4])[0] == "Lit" and Fraction(str(T.strip_casts(a[4])[3])) == PA_PER_ATM:
                        return True, "local scaled by 101325"
                    if a[2] == "=":
                        okk, why = pascal_ok(a[4])
                        if okk:
                            return True, why
            return False, "is not an atmosphere quantity times 101325"

        for c in calls:
            inst = "%s@%d" % (f["q"].split("::")[-1], c[1])
            ok1, why1 = kelvin_ok(c[4][1])
            ok2, why2 = pascal_ok(c[4][2])
            if ok1:
                R.ok("C01.kcall", inst + ":T", why1)
            else:
                R.violation("C01.kcall", inst + ":T", "the temperature passed to k_calc, `%s`, %s: log K would be evaluated at the wrong temperature" % (T.text(c[4][1])[:60], why1),
                            file=f["file"], line=c[1], function=f["q"])
            if ok2:
                R.ok("C01.kcall", inst + ":P", why2)
            else:
                R.violation("C01.kcall", inst + ":P", "the pressure passed to k_calc, `%s`, %s" % (T.text(c[4][2])[:60], why2), file=f["file"], line=c[1], function=f["q"])


def rename(r, m):
    def rp(p):
        t = {}
        for k, v in p.t.items():
            kk = tuple(sorted((m.get(s, s), e) for s, e in k))
            # merge equal symbols after renaming
            d = {}
            for s, e in kk:
                d[s] = d.get(s, 0) + e
            kk = tuple(sorted(d.items()))
            t[kk] = t.get(kk, 0) + v
        return RF.Poly(t)
    return RF.Rat(rp(r.n), rp(r.d))


# ------------------------------------------------------------------------------------------ slots

READERS = {"read_log_k_only": "logK_T0", "read_delta_h_only": "delta_h", "read_analytical_expression_only": "T_A1"}


def slots_rule(P, R):
    R.rule("C01.slots", "every reader of log K data stores into the record slot k_calc reads for that datum", minimum=15)
    # enumerators
    en = None
    for q, e in P.enums.items():
        names = [x[0] for x in e["enumerators"]]
        if "logK_T0" in names and "T_A1" in names:
            en = e
            vals = {x[0]: x[1] for x in e["enumerators"]}
    if en is None:
        R.anchor_missing("C01.slots", "enumeration with logK_T0, delta_h, T_A1.. not found")
        return
    seq = [vals.get("T_A%d" % i) for i in range(1, 7)]
    if None not in seq and all(int(seq[i + 1]) == int(seq[i]) + 1 for i in range(5)) and int(vals["logK_T0"]) not in map(int, seq) and int(vals["delta_h"]) not in map(int, seq):
        R.ok("C01.slots", "enum:T_A1..T_A6", "six consecutive enumerators, distinct from logK_T0 and delta_h")
    else:
        R.violation("C01.slots", "enum:T_A1..T_A6", "T_A1..T_A6 are no longer six consecutive enumerators (%s): read_analytical_expression_only fills log_k[0..5] from &logk[T_A1]" % seq,
                    file="phreeqcpp/global_structures.h", line=0, function="LOG_K_INDICES")
    # the analytical reader fills 0..5 in order
    ra = P.one("Phreeqc::read_analytical_expression_only")
    idx = []
    for c in T.calls(ra["body"]):
        if T.callee_name(c) == "sscanf":
            for a in c[4][2:]:
                a = T.strip_casts(a)
                if a[0] == "Un" and a[2] == "&":
                    s = T.strip_casts(a[3])
                    if s[0] in ("Index", "Subscript", "ArraySubscript"):
                        idx.append(T.lit_value(s[3]))
    if idx == [0, 1, 2, 3, 4, 5]:
        R.ok("C01.slots", "read_analytical_expression_only", "sscanf fills log_k[0..5] in order")
    else:
        R.violation("C01.slots", "read_analytical_expression_only", "the analytical coefficients are stored as log_k%s instead of log_k[0..5] in order: A_i would be used with the wrong power of T" % idx,
                    file=ra["file"], line=ra["line"], function=ra["q"])
    n = 0
    for key, f in sorted(P.functions.items()):
        for c in T.calls(f["body"]):
            nm = T.callee_name(c)
            if nm in READERS and len(c[4]) >= 2:
                a = T.strip_casts(c[4][1])
                slot = None
                if a[0] == "Un" and a[2] == "&":
                    sub = T.strip_casts(a[3])
                    if sub[0] == "Index":
                        slot = T.lit_value(sub[3])      # integer literal or enumerator value
                if slot is None:
                    # a pointer passed through (e.g. a local LDBLE*): not a record slot site
                    continue
                n += 1
                inst = "%s:%s@%d" % (f["q"].split("::")[-1], nm, c[1])
                if int(slot) == int(vals[READERS[nm]]):
                    R.ok("C01.slots", inst, "-> slot %d = %s" % (slot, READERS[nm]))
                else:
                    R.violation("C01.slots", inst, "%s stores into slot %s of the log K record; k_calc reads this datum from slot %s (= %d)" % (nm, slot, READERS[nm], vals[READERS[nm]]),
                                file=f["file"], line=c[1], function=f["q"])


# ------------------------------------------------------------------------------------------ saturation indices

def si_rule(P, R):
    R.rule("C01.si", "every saturation-index computation accumulates IAP as coef * log a and reports SI = IAP - lk", minimum=10)
    for key, f in sorted(P.functions.items()):
        si_as = []
        for x in T.walk(f["body"]):
            if x[0] == "Bin" and x[2] == "=":
                t = T.text(x[3]).lstrip("*")
                if t == "si" and any((y[0] == "Member" and y[2].split("::")[-1] == "lk") or (y[0] == "Ref" and y[2] == "local" and y[3] == "lk") for y in T.walk(x[4])):
                    si_as.append(x)
        if not si_as:
            continue
        where = dict(file=f["file"], function=f["q"])
        cv = Conv(f)
        cv.locals = {}      # no inlining: iap is an accumulator
        for x in si_as:
            inst = "%s:si@%d" % (f["q"].split("::")[-1], x[1])
            try:
                got = cv.conv(x[4])
            except (RF.NotRational, ZeroDivisionError) as e:
                R.violation("C01.si", inst, "SI is not computed as IAP - lk (%s)" % T.text(x[4])[:120], line=x[1], **where)
                continue
            if got.same(RF.parse("iap - lk")):
                R.ok("C01.si", inst, "si = iap - lk")
            else:
                R.violation("C01.si", inst, "SI = %s is not IAP - log K" % T.text(x[4])[:120], line=x[1], **where)
        for x in T.walk(f["body"]):
            if x[0] == "Bin" and x[2] in ("+=", "-=", "=") and T.text(x[3]).lstrip("*") == "iap":
                if x[2] == "=":
                    continue          # initialisation / default-pe sums are not the per-token accumulation
                if not any(y[0] == "Member" and y[2].split("::")[-1] in ("la", "lm") for y in T.walk(x[4])):
                    continue
                inst = "%s:iap@%d" % (f["q"].split("::")[-1], x[1])
                try:
                    got = cv.conv(x[4])
                except (RF.NotRational, ZeroDivisionError):
                    R.violation("C01.si", inst, "IAP term %s is not coef * log a" % T.text(x[4])[:120], line=x[1], **where)
                    continue
                got = rename(got, {"s_eminus.la": "la"})
                okf = x[2] == "+=" and (got.same(RF.parse("la*coef")) or got.same(RF.parse("(lm+lg)*coef")))
                if okf:
                    R.ok("C01.si", inst, "iap += coef * log a")
                else:
                    R.violation("C01.si", inst, "the ion activity product accumulates `%s %s` instead of coef * log a" % (x[2], T.text(x[4])[:120]), line=x[1], **where)


# ------------------------------------------------------------------------------------------ read-out identities

def branch_values(f, var):
    """rational functions assigned to local `var` in f (constants dropped), and exponents of pow(10, .) assigned to it"""
    cv = Conv(f)
    cv.locals = {k: v for k, v in cv.locals.items() if k == "__none__"}
    plain, expo = [], []
    for x in T.walk(f["body"]):
        if x[0] == "Bin" and x[2] == "=" and T.text(x[3]) == var:
            r = T.strip_casts(x[4])
            if r[0] == "Call" and T.callee_name(r) == "pow" and len(r[4]) == 2 and num_value(r[4][0]) == 10:
                try:
                    expo.append((cv.conv(r[4][1]), x))
                except RF.NotRational:
                    expo.append((None, x))
            else:
                try:
                    v = cv.conv(r)
                    if v.symbols():
                        plain.append((v, x))
                except RF.NotRational:
                    plain.append((None, x))
    return plain, expo


def same_set(a, b):
    a = [x for x in a]
    b = [x for x in b]
    if any(x is None for x in a + b):
        return False
    return all(any(x.same(y) for y in b) for x in a) and all(any(x.same(y) for y in a) for x in b)


def readout_rule(P, R):
    R.rule("C01.readout", "paired read-out functions agree: a = 10^(log a), gamma = 10^(log gamma), log a = log m + log gamma, SR = 10^SI, pH = -log a(H+)", minimum=6)
    la, act = P.one("Phreeqc::log_activity"), P.one("Phreeqc::activity")
    lgc, gc = P.one("Phreeqc::log_activity_coefficient"), P.one("Phreeqc::activity_coefficient")
    lm = P.one("Phreeqc::log_molality")
    # activity = 10^(log activity)
    pl, _ = branch_values(la, "la")
    _, ex = branch_values(act, "a")
    if pl and ex and same_set([v for v, _ in pl], [v for v, _ in ex]):
        R.ok("C01.readout", "activity~log_activity", "ACT = 10^LA on every branch (%d)" % len(ex))
    else:
        R.violation("C01.readout", "activity~log_activity", "the branches of Phreeqc::activity are not 10^(the branches of Phreeqc::log_activity): ACT and LA disagree for some species",
                    file=act["file"], line=act["line"], function=act["q"])
    # gamma = 10^(log gamma)
    pl2, _ = branch_values(lgc, "g")
    _, ex2 = branch_values(gc, "g")
    if pl2 and ex2 and same_set([v for v, _ in pl2], [v for v, _ in ex2]):
        R.ok("C01.readout", "activity_coefficient~log_activity_coefficient", "GAMMA = 10^LG")
    else:
        R.violation("C01.readout", "activity_coefficient~log_activity_coefficient", "Phreeqc::activity_coefficient is not 10^(Phreeqc::log_activity_coefficient)",
                    file=gc["file"], line=gc["line"], function=gc["q"])
    # log a = log m + log gamma on the general branch
    plm, _ = branch_values(lm, "lm")
    gen_lm = [v for v, _ in plm if v is not None and v.same(RF.Rat.sym("lm"))]
    gen_la = [v for v, _ in pl if v is not None and v.same(RF.parse("lm + lg"))]
    gen_lg = [v for v, _ in pl2 if v is not None and (v.same(RF.parse("lg - dum")) or v.same(RF.Rat.sym("lg")))]
    if gen_lm and gen_la and gen_lg:
        R.ok("C01.readout", "log a = log m + log gamma", "LA = lm + lg, LM = lm, LG = lg (- exchange convention term)")
    else:
        R.violation("C01.readout", "log a = log m + log gamma", "the general branches of log_activity / log_molality / log_activity_coefficient are no longer lm + lg / lm / lg",
                    file=la["file"], line=la["line"], function=la["q"])
    # SR = 10^SI
    sr = P.one("Phreeqc::saturation_ratio")
    okr = False
    for x in T.walk(sr["body"]):
        if x[0] == "Return":
            r = T.strip_casts(x[2])
            if T.is_node(r) and r[0] == "Call" and T.callee_name(r) == "pow" and num_value(r[4][0]) == 10 and T.text(r[4][1]) == "si":
                okr = True
    if okr:
        R.ok("C01.readout", "saturation_ratio", "returns 10^si (si checked by C01.si)")
    else:
        R.violation("C01.readout", "saturation_ratio", "SR is not returned as 10^si", file=sr["file"], line=sr["line"], function=sr["q"])
    # pH writers
    n = 0
    for key, f in sorted(P.functions.items()):
        for c in T.calls(f["body"]):
            args = c[4] if c[0] == "Call" else []
            if T.callee_name(c) in ("fpunchf", "sformatf") and args and any(T.strip_casts(a)[0] == "Lit" and str(T.strip_casts(a)[3]).strip() in ("pH", "pH  = ") for a in args[:2]):
                val = args[-1]
                cv = Conv(f)
                cv.locals = {}
                inst = "%s:pH@%d" % (f["q"].split("::")[-1], c[1])
                if not any(y[0] == "Member" and y[2] == "Phreeqc::s_hplus" for y in T.walk(val)):
                    continue          # a pH column of something else (inverse-model input data)
                try:
                    got = cv.conv(val)
                except RF.NotRational:
                    continue
                n += 1
                if got.same(RF.parse("0 - s_hplus.la")):
                    R.ok("C01.readout", inst, "pH = -la(H+)")
                else:
                    R.violation("C01.readout", inst, "pH is written as %s instead of -log a(H+)" % T.text(val)[:80], file=f["file"], line=c[1], function=f["q"])
    if n < 2:
        R.anchor_missing("C01.readout", "fewer than 2 pH writers found (%d)" % n)


def logkdone_rule(P, R):
    """"log K(T) as the database text prescribes (log_k / delta_h / analytic / add_logk)": tidy_logk rebuilds every named expression from its
    own terms (select_log_k_expression) and then folds the expressions it refers to through -add_logk into it (add_logks), once per
    expression: the member logk::done gates the folding and add_logks sets it.  tidy_logk runs again in every later input that contains
    a NAMED_EXPRESSIONS block; it must therefore clear `done` for every expression in the loop that rebuilds it - otherwise the rebuilt
    expressions keep only their own terms and every species or phase that uses a composite expression silently loses the referenced part."""
    RULE = "C01.logkdone"
    R.rule(RULE, "tidy_logk clears logk::done for every expression it rebuilds, before the loop that folds the -add_logk references", minimum=1)
    f = P.one("Phreeqc::tidy_logk")
    gates = [x for x in T.walk(f["body"]) if x[0] == "If" and any(y[0] == "Member" and y[2] == "logk::done" for y in T.walk(x[2]))
             and any(T.callee_name(c) == "add_logks" for c in T.calls(x[3]))]
    rebuild = [lp for lp in T.walk(f["body"]) if lp[0] == "For" and any(T.callee_name(c) == "select_log_k_expression" for c in T.calls(lp[5]))]
    if len(gates) != 1 or len(rebuild) != 1:
        R.anchor_missing(RULE, "tidy_logk: %d gated add_logks calls, %d rebuilding loops" % (len(gates), len(rebuild)))
        return
    body = rebuild[0][5]
    stmts = body[2] if T.is_node(body) and body[0] == "Compound" else [body]
    clear = [st for st in stmts if T.is_node(st) and st[0] == "Bin" and st[2] == "=" and any(y[0] == "Member" and y[2] == "logk::done" for y in T.walk(st[3]))
             and T.lit_value(T.strip_casts(st[4])) == 0]
    if clear and clear[0][1] < gates[0][1]:
        R.ok(RULE, "tidy_logk", "done = FALSE at line %d, unconditionally in the rebuilding loop, before the folding loop (line %d)" % (clear[0][1], gates[0][1]))
    else:
        R.violation(RULE, "tidy_logk", "tidy_logk rebuilds every named expression from its own terms but does not clear logk::done: on a second pass (any later NAMED_EXPRESSIONS block) the "
                    "-add_logk references are not folded in again and composite expressions lose the referenced part", file=f["file"], line=rebuild[0][1], function=f["q"])


def mbnorm_rule(P, R):
    """"Species molalities weighted by stoichiometry add up to the reported element totals": a species with -mole_balance lists the
    valence states it belongs to; build_species_list weights each entry with the number of atoms in the master species of that state
    (master::coef: 2 for H2, O2, N2), so tidy_species divides the listed coefficient by that number first.  The division must be applied to
    every listed state - also to the valence states of H and O, which the same loop additionally adds to species::h / species::o.
    Structurally: the statement `next_secondary[j].coef /= master->coef` is not in the else-part of a test for the H+ / H2O master."""
    RULE = "C01.mbnorm"
    R.rule(RULE, "tidy_species: the division of a -mole_balance coefficient by master::coef is applied to the valence states of H and O too", minimum=1)
    f = P.one("Phreeqc::tidy_species")
    found = []

    def rec(node, in_else_of):
        if not T.is_node(node):
            return
        if node[0] == "Bin" and node[2] == "/=" and any(y[0] == "Member" and y[2] == "elt_list::coef" for y in T.walk(node[3])) and any(
                y[0] == "Member" and y[2] == "master::coef" for y in T.walk(node[4])):
            found.append((node, list(in_else_of)))
        if node[0] == "If":
            rec(node[2], in_else_of)
            rec(node[3], in_else_of)
            rec(node[4], in_else_of + [node[2]])
            return
        for ch in T.children(node):
            rec(ch, in_else_of)
    rec(f["body"], [])
    if len(found) != 1:
        R.anchor_missing(RULE, "tidy_species: %d statements divide a -mole_balance coefficient by master::coef" % len(found))
        return
    node, conds = found[0]
    hw = [c for c in conds if any(y[0] == "Member" and y[2] in ("Phreeqc::s_hplus", "Phreeqc::s_h2o", "Phreeqc::s_h3oplus") for y in T.walk(c))]
    if hw:
        R.violation(RULE, "tidy_species", "the division by master::coef (line %d) is in the else-part of `%s`: for H(0) and O(0) of a -mole_balance species it is skipped, and HD, HT, O[18O] "
                    "are counted twice in the H(0) / O(0) totals" % (node[1], T.text(hw[0])[:60]), file=f["file"], line=node[1], function=f["q"])
    else:
        R.ok(RULE, "tidy_species", "division at line %d is applied to every listed valence state" % node[1])


def loopindex_rule(P, R):
    """Sums over species, masters, unknowns ... are loops `for (v = 0; v < X.size(); v++)` that read X[v].  Inside such a loop a subscript
    X[w] with a variable w that is not the induction variable of any enclosing for-loop reads an element unrelated to the iteration:
    system_total_elt_secondary built the element list of species j from s_x[i], i being the running number of the surface charge, and
    SYS of a valence state lost its diffuse-layer part.  Program-wide census; X is compared as written (this->s_x and other.s_x differ)."""
    RULE = "C01.loopindex"
    R.rule(RULE, "inside a loop over X.size() the vector X is subscripted by for-loop induction variables only", minimum=1)

    def vec(n):
        n = T.strip_casts(n)
        return " ".join(T.text(n).split()) if T.is_node(n) and n[0] == "Member" else None

    def induction(lp):
        """variables assigned in the init and stepped in the increment of a for statement"""
        out = set()
        for part in (lp[2], lp[4]):
            if T.is_node(part):
                for t, how, line, w in T.writes(part):
                    tt = T.strip_casts(t)
                    if T.is_node(tt) and tt[0] == "Ref" and tt[2] == "local":
                        out.add(tt[3])
                if part[0] == "Decl":
                    for d in part[2]:
                        if isinstance(d, list) and d and isinstance(d[0], str):
                            out.add(d[0])
        return out

    def bound(lp):
        c = T.strip_casts(lp[3]) if T.is_node(lp[3]) else None
        if not (T.is_node(c) and c[0] == "Bin" and c[2] in ("<", "<=")):
            return None
        for y in T.walk(c[4]):
            if y[0] == "Call" and T.callee_name(y) == "size" and T.call_obj(y) is not None:
                return vec(T.call_obj(y))
        return None
    n = 0
    for k, g in sorted(P.functions.items(), key=lambda kv: kv[1]["q"]):
        def rec(node, ind, vecs):
            nonlocal n
            if not T.is_node(node):
                return
            if node[0] == "For":
                i2 = ind | induction(node)
                b = bound(node)
                v2 = vecs | ({b} if b else set())
                for ch in T.children(node):
                    rec(ch, i2, v2)
                return
            if node[0] in ("While", "Do"):
                # `int j = i + 1; while (j < n && ...) { ...; j++; }`: variables tested by the loop and stepped in its body
                tested = {y[3] for y in T.walk(node[2]) if y[0] == "Ref" and y[2] == "local"} if T.is_node(node[2]) else set()
                stepped = set()
                for t, how, line, w in T.writes(node[3]):
                    tt = T.strip_casts(t)
                    if how in ("++", "op=") and T.is_node(tt) and tt[0] == "Ref" and tt[2] == "local":
                        stepped.add(tt[3])
                i2 = ind | (tested & stepped)
                for ch in T.children(node):
                    rec(ch, i2, vecs)
                return
            if node[0] == "Call" and T.callee_name(node) == "operator[]" and len(node[4]) == 2 and vecs:
                nm, idx = vec(node[4][0]), T.strip_casts(node[4][1])
                if nm in vecs and T.is_node(idx) and idx[0] == "Ref" and idx[2] == "local":
                    n += 1
                    if idx[3] not in ind:
                        R.violation(RULE, "%s@%d" % (g["q"].split("::")[-1], node[1]), "inside a loop over %s.size() the element %s[%s] is read, but `%s` is not the induction variable of an "
                                    "enclosing for-loop: the element does not belong to the iteration" % (nm, nm, idx[3], idx[3]), file=g["file"], line=node[1], function=g["q"])
            for ch in T.children(node):
                rec(ch, ind, vecs)
        rec(g["body"], set(), set())
    R.table("C01.loopindex.census", {"subscripts_checked": n})
    if n >= 1500:
        R.ok(RULE, "census", "%d subscripts inside loops over the same vector checked" % n)
    else:
        R.anchor_missing(RULE, "only %d subscripts inside loops over the same vector found (1700 expected)" % n)


def tidyonce_rule(P, R):
    """The tidy_* functions run again after every block that changes the model (tidy_model: `if (new_model) ...`), on data that lives as long
    as the instance.  A multiplicative update in place (`x /= k`, `x *= k`) of such data is applied once more by every rerun unless the
    datum - or the container it sits in - is given a fresh value earlier in the same pass.  (tidy_species divided the -mole_balance
    coefficients of O[18O], HD, N[15N] by 2 on every rerun: after one unrelated PHASES block the species no longer added up to the
    reported totals.)  Census of the tidy_* functions; the re-initialisation is searched in the blocks that enclose the update."""
    RULE = "C01.tidyonce"
    R.rule(RULE, "tidy_* functions: a datum that is scaled in place (/=, *=) is re-initialised earlier in the same pass", minimum=2)

    def norm(n):
        return "".join(T.text(n, -40).split())

    def bases(n):
        out = []
        n = T.strip_casts(n)
        while T.is_node(n):
            out.append(norm(n))
            if n[0] == "Member":
                n = T.strip_casts(n[3])
            elif n[0] == "Call" and T.callee_name(n) == "operator[]" and n[4]:
                n = T.strip_casts(n[4][0])
            elif n[0] == "Index":
                n = T.strip_casts(n[2])
            elif n[0] == "Un" and n[2] == "*":
                n = T.strip_casts(n[3])
            elif n[0] == "Paren":
                n = T.strip_casts(n[2])
            else:
                break
        return out
    n = 0
    for f in sorted(P.functions.values(), key=lambda g: (g["file"], g["line"])):
        if not f.get("body") or not f["q"].startswith("Phreeqc::tidy"):
            continue

        def visit(node, stack):
            nonlocal n
            if not T.is_node(node):
                return
            if node[0] == "Bin" and node[2] in ("/=", "*=") and T.is_node(T.strip_casts(node[3])) and T.strip_casts(node[3])[0] == "Member":
                n += 1
                bs = set(bases(node[3]))
                inst = "%s@%d" % (f["q"].split("::")[-1], node[1] - f["line"])
                fresh = None
                for blk, idx in stack:
                    for st in blk[2][:idx]:
                        if not T.is_node(st):
                            continue
                        for t, how, line, w in T.writes(st):
                            if (how in ("=", "addr", "ref") or how == "call:operator=") and norm(t) in bs:
                                fresh = line
                if fresh:
                    R.ok(RULE, inst, "`%s`: fresh value at line %d of the same pass" % (T.text(node)[:50], fresh))
                else:
                    R.violation(RULE, inst, "`%s` scales data of the instance in place and nothing in the enclosing blocks gives it a fresh value first: every rerun of %s "
                                "(after any later block that changes the model) applies the factor once more" % (T.text(node)[:60], f["q"].split("::")[-1]),
                                file=f["file"], line=node[1], function=f["q"])
                return
            if node[0] == "Compound":
                for idx, st in enumerate(node[2]):
                    visit(st, stack + [(node, idx)])
                return
            for c in node[2:]:
                if isinstance(c, list):
                    if c and isinstance(c[0], str):
                        visit(c, stack)
                    else:
                        for cc in c:
                            if isinstance(cc, list) and cc and isinstance(cc[0], str):
                                visit(cc, stack)
        visit(f["body"], [])
    if n < 2:
        R.anchor_missing(RULE, "only %d in-place multiplicative updates found in the tidy_* functions" % n)


def calcalk_rule(P, R):
    """"species molalities weighted by stoichiometry add up to the reported ... alkalinity": the alkalinity of a species (species::alk) is
    computed once by calc_alk as the sum over ALL terms of its reaction, rewritten to master species, of coefficient x alkalinity of the
    master - the electron included (every shipped database gives e- an alkalinity).  The accumulating statement must be executed for every
    term the loop visits: a direct statement of the loop body, not under a condition on the kind of species."""
    RULE = "C01.calcalk"
    R.rule(RULE, "calc_alk: coef * master->alk is accumulated for every term of the reaction (no condition on the species of the term)", minimum=1)
    f = P.one("Phreeqc::calc_alk")
    loops = [x for x in T.walk(f["body"]) if x[0] in ("While", "For")]
    if len(loops) != 1:
        R.anchor_missing(RULE, "calc_alk: %d loops" % len(loops))
        return
    body = loops[0][3] if loops[0][0] == "While" else loops[0][5]
    direct = body[2] if T.is_node(body) and body[0] == "Compound" else [body]

    def is_acc(st):
        return T.is_node(st) and st[0] == "Bin" and st[2] == "+=" and any(y[0] == "Member" and y[2] == "master::alk" for y in T.walk(st[4])) and \
            any(y[0] == "Member" and y[2].endswith("::coef") for y in T.walk(st[4]))
    accs = [w for w in T.walk(body) if is_acc(w)]
    if len(accs) != 1:
        R.anchor_missing(RULE, "calc_alk: %d accumulating statements" % len(accs))
        return
    if any(st is accs[0] for st in direct):
        R.ok(RULE, "calc_alk", "accumulated unconditionally for every term (line %d)" % accs[0][1])
    else:
        conds = [x for x in T.walk(body) if x[0] == "If" and any(w is accs[0] for w in T.walk(x))]
        R.violation(RULE, "calc_alk", "the alkalinity of a term is added only under `%s`: terms of other kinds (the electron has type EMINUS and an alkalinity in every database) "
                    "are left out, species::alk and with it the reported alkalinity no longer equal the stoichiometric sum" % (T.text(conds[0][2])[:60] if conds else "a condition"),
                    file=f["file"], line=accs[0][1], function=f["q"])
