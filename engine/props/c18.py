"""C18 – every reported inverse model is a genuine, admissible mole-balance model.

The property as a whole depends on the L1 solver's numerical output and is NOT decided.  Two of its clauses rest on small pieces
of code whose correctness is visible in their shape; those are decided:
  C18.sign     "mixing fractions are non-negative, dissolve-only phases have non-negative and precipitate-only phases non-positive
               transfers": one sign convention runs from the input word to the solver's acceptance test, and every link agrees:
               read_inverse_phases maps the words p... / d... to PRECIPITATE / DISSOLVE (default EITHER); the enumerators have
               the signs - / + ; setup_inverse stores a negative constraint value for PRECIPITATE columns, a positive one for
               DISSOLVE columns and a positive one for every initial-solution fraction; cl1 turns a negative value into the upper
               bound and a positive one into the lower bound (distinct halves of its bound arrays) and its final check rejects
               x > tol under a negative and x < -tol under a positive constraint; the model file marks PRECIPITATE '-' and
               DISSOLVE '+' (reversed for exchangers)
  C18.sets     "with -minimal no reported model's set strictly contains that of another": the three set predicates over the bit
               masks of phases are what their names say: superset_minimal(b) <=> some minimal[i] is a subset of b
               ((b | minimal[i]) == b), subset_bad(b) <=> b is a subset of some bad[i] ((b | bad[i]) == bad[i]),
               subset_minimal(b) <=> b is a subset of some minimal[i]
  C18.spread   "each analytical adjustment within its declared uncertainty": an uncertainty declared for an element by its primary
               name (-balances S 0.01) belongs to EVERY valence state of that element: the loop of tidy_inverse that matches
               constraint rows by `row.master->elt->primary` (a many-to-one projection) must visit all matching rows - it may
               not leave at the first match - and must copy the uncertainty of every solution; the sibling loop that matches
               rows by identity (`row.master`) may stop at its single match
  C18.init     the sign-constraint vector is zeroed before anything is written into it: in setup_inverse the zero-fill of `delta`
               precedes every store into delta[...] (the epsilon loop stores a +1 for an element that is absent from a solution,
               so that only positive adjustments are allowed; a later zero-fill erases it and the adjustment loses its lower
               bound)
  C18.isocol   the phase-isotope adjustment unknowns form a block with one column per entry of the model's -isotopes list; every site
               that addresses the block (equation set-up, bounds, dropping phases, printing, checking) takes the offset from an index
               looped to inv_ptr->isotopes.size() (or a parameter whose callers do), never the position in the phase's own list
  C18.rangeinit  range() clears both min_delta and max_delta before it stores the extrema of the current model (an unknown that is not in
               the model must not keep the range of the previous one)
Not decided: mole balance of every element within the uncertainties, the min..max ranges, which subsets the search visits
(all outcomes of the solver).
"""
from .. import tree as T

PROP = "C18"
EXPLANATION = __doc__


def num(n):
    n = T.strip_casts(n)
    if T.is_node(n) and n[0] == "Un" and n[2] == "-":
        v = num(n[3])
        return -v if v is not None else None
    if T.is_node(n) and n[0] == "Lit" and n[2] in ("int", "float"):
        try:
            return float(str(n[3]).rstrip("fFlL"))
        except ValueError:
            return None
    return None


def isocol_rule(P, R):
    """Column layout of the phase-isotope adjustment unknowns: block col_phase_isotopes holds, for phase i, one column per entry of
    the model's -isotopes list: column = col_phase_isotopes + i * inv_ptr->isotopes.size() + X.  Every site that addresses the block
    (row set-up, bounds, dropping phases, printing, checking) must take X from the model-level list `inverse::isotopes`
    (an index looped to inv_ptr->isotopes.size(), or a parameter whose every caller passes such an index), never the position in
    the phase's own isotope list: the two orders differ whenever a phase carries a subset."""
    RULE = "C18.isocol"
    R.rule(RULE, "every address into the phase-isotope column block uses the index of the model-level -isotopes list", minimum=5)

    def bound_kind(loopcond, var):
        """for `var < E.size()`: the qualified member E refers to"""
        c = T.strip_casts(loopcond) if T.is_node(loopcond) else None
        if not c or c[0] != "Bin" or c[2] not in ("<", "!="):
            return None
        a = T.strip_casts(c[3])
        if not (a[0] == "Ref" and a[3] == var):
            return None
        for y in T.walk(c[4]):
            if y[0] == "Call" and T.callee_name(y) == "size" and T.is_node(y[3]):
                m = T.strip_casts(y[3])
                if m[0] == "Member":
                    return m[2]
        return None

    def index_kind(f, var, line):
        best = None
        for x in T.walk(f["body"]):
            if x[0] == "For" and x[1] <= line:
                k = bound_kind(x[3], var)
                if k and (best is None or x[1] >= best[0]):
                    best = (x[1], k)
        return best

    n = 0
    for f in P.functions.values():
        if not f.get("body") or not f["q"].startswith("Phreeqc::"):
            continue
        for x in T.walk(f["body"]):
            if not (x[0] == "Bin" and x[2] == "+"):
                continue
            l = T.strip_casts(x[3])
            if not (l[0] == "Bin" and l[2] == "+" and T.strip_casts(l[3])[0] == "Member" and T.strip_casts(l[3])[2] == "Phreeqc::col_phase_isotopes"):
                continue
            X = T.strip_casts(x[4])
            where = dict(file=f["file"], function=f["q"], line=x[1])
            inst = "%s@%d" % (f["q"].split("::")[-1], x[1])
            n += 1
            if X[0] != "Ref":
                R.violation(RULE, inst, "offset `%s` into the phase-isotope block is not a plain index" % T.text(X)[:40], **where)
                continue
            if X[2] == "param":
                # every caller passes an index over inverse::isotopes
                pi = X[5] if len(X) > 5 else None
                callers = []
                for g in P.functions.values():
                    if not g.get("body"):
                        continue
                    for c in T.calls(g["body"]):
                        if T.callee_q(c) == f["q"]:
                            callers.append((g, c))
                ok = bool(callers)
                why = []
                for g, c in callers:
                    a = T.strip_casts(c[4][pi]) if pi is not None and pi < len(c[4]) else None
                    k = index_kind(g, a[3], c[1]) if a and a[0] == "Ref" else None
                    why.append("%s:%d %s" % (g["q"].split("::")[-1], c[1], k[1] if k else "?"))
                    if not k or k[1] != "inverse::isotopes":
                        ok = False
                if ok:
                    R.ok(RULE, inst, "parameter %s; callers pass an index over inverse::isotopes (%s)" % (X[3], "; ".join(why)))
                else:
                    R.violation(RULE, inst, "parameter `%s` is used as the offset but not every caller passes an index over the -isotopes list (%s)" % (X[3], "; ".join(why)), **where)
                continue
            k = index_kind(f, X[3], x[1])
            if k and k[1] == "inverse::isotopes":
                R.ok(RULE, inst, "`%s` is looped to inv_ptr->isotopes.size() (line %d)" % (X[3], k[0]))
            elif k:
                R.violation(RULE, inst, "the offset `%s` is the position in `%s` (loop at line %d), not in the model-level -isotopes list: for a phase that carries only some of the "
                            "balanced isotopes the term lands in another isotope's column, which has no cost and no bounds, and the printed adjustment no longer closes "
                            "the isotope mole balance" % (X[3], k[1], k[0]), **where)
            else:
                R.anchor_missing(RULE, "%s: no loop bounding the offset `%s` found" % (inst, X[3]))
    if n < 5:
        R.anchor_missing(RULE, "only %d addresses into the col_phase_isotopes block found (5 confirmed)" % n)


def run(P, R, tier):
    isocol_rule(P, R)
    rangeinit_rule(P, R)
    phasecoef_rule(P, R)
    minimalrange_rule(P, R)
    isokey_rule(P, R)
    isoskip_rule(P, R)
    cl1check_rule(P, R)
    searchidx_rule(P, R)
    iunumber_rule(P, R)
    R.undecided += ["mole balance of every element within the declared uncertainties; min..max ranges (solver output)",
                    "which subsets of phases the search visits; isotope balances"]
    R.rule("C18.sign", "one sign convention from the input word to the solver's acceptance test: precipitate <= 0, dissolve >= 0, mixing fractions >= 0", minimum=7)
    # ---- enumerators: the macros expand to literals; recover them from the reader (p -> value, d -> value)
    rd = P.one("Phreeqc::read_inverse_phases") if P.fns_named("Phreeqc::read_inverse_phases") else None
    if rd is None:
        cand = [f for f in P.functions.values() if f["q"].startswith("Phreeqc::read_inv") and any(y[0] == "Member" and y[2].endswith("::constraint") for y in T.walk(f["body"]))]
        rd = cand[0] if cand else None
    if rd is None:
        R.anchor_missing("C18.sign", "reader of the phase constraint words not found")
        return
    vals = {}
    default = None
    for x in T.walk(rd["body"]):
        if x[0] == "If":
            c = T.strip_casts(x[2])
            ch = None
            if c[0] == "Bin" and c[2] == "==":
                for side in (c[3], c[4]):
                    s_ = T.strip_casts(side)
                    if s_[0] == "Lit" and s_[2] == "char":
                        try:
                            ch = chr(int(s_[3]))
                        except (ValueError, TypeError):
                            ch = str(s_[3]).strip("'")
            if ch in ("p", "d"):
                for w in T.walk(x[3]):
                    if w[0] == "Bin" and w[2] == "=" and T.text(w[3]).endswith("constraint"):
                        vals[ch] = num(w[4])
        if x[0] == "Bin" and x[2] == "=" and T.text(x[3]).endswith("constraint") and default is None:
            default = num(x[4])
    where = dict(file=rd["file"], line=rd["line"], function=rd["q"])
    if "p" in vals and "d" in vals and vals["p"] is not None and vals["d"] is not None and vals["p"] < 0 < vals["d"] and default == 0:
        R.ok("C18.sign", "read:words", "p... -> %g (precipitate), d... -> %g (dissolve), default 0 (either)" % (vals["p"], vals["d"]))
    else:
        R.violation("C18.sign", "read:words", "the constraint words are not mapped to precipitate < 0 < dissolve with default 0 (p -> %s, d -> %s, default %s)"
                    % (vals.get("p"), vals.get("d"), default), **where)
        return
    PREC, DISS = vals["p"], vals["d"]

    # ---- setup_inverse: constraint values per column
    si = P.one("Phreeqc::setup_inverse")
    got = {}
    for x in T.walk(si["body"]):
        if x[0] == "If":
            c = T.strip_casts(x[2])
            if c[0] == "Bin" and c[2] == "==" and T.text(c[3]).endswith("constraint") and num(c[4]) in (PREC, DISS):
                for w in T.walk(x[3]):
                    if w[0] == "Bin" and w[2] == "=" and "delta" in T.text(w[3]) and "col_phases" in T.text(w[3]):
                        got[num(c[4])] = (num(w[4]), w[1])
    for k, name in ((PREC, "precipitate"), (DISS, "dissolve")):
        where = dict(file=si["file"], function=si["q"])
        if k not in got:
            R.violation("C18.sign", "setup:" + name, "setup_inverse sets no sign constraint for %s phases" % name, line=si["line"], **where)
        elif got[k][0] is not None and got[k][0] * k > 0:
            R.ok("C18.sign", "setup:" + name, "constraint value %g" % got[k][0])
        else:
            R.violation("C18.sign", "setup:" + name, "setup_inverse stores the constraint value %s for %s phases (the convention is negative = may only precipitate, positive = may only "
                        "dissolve)" % (got[k][0], name), line=got[k][1], **where)
    # mixing fractions
    mix = None
    for x in T.walk(si["body"]):
        if x[0] == "For" and any(y[0] == "Member" and y[2].endswith("count_solns") for y in T.walk(x[3]) if T.is_node(x[3])):
            for w in T.walk(x[5]):
                if w[0] == "Bin" and w[2] == "=" and T.text(w[3]).replace(" ", "") in ("operator[](delta,i)", "delta[i]"):
                    mix = (num(w[4]), w[1])
    if mix and mix[0] is not None and mix[0] > 0:
        R.ok("C18.sign", "setup:mixing-fractions", "constraint value %g for every initial solution" % mix[0])
    else:
        R.violation("C18.sign", "setup:mixing-fractions", "setup_inverse does not constrain the mixing fractions of the initial solutions to be non-negative (%s)" % (mix,),
                    file=si["file"], line=mix[1] if mix else si["line"], function=si["q"])

    # ---- cl1: bound set-up and final check
    cl = P.one("Phreeqc::cl1")
    where = dict(file=cl["file"], function=cl["q"])
    setup = {}
    check = {}
    for x in T.walk(cl["body"]):
        if x[0] != "If":
            continue
        c = T.strip_casts(x[2])
        if not (c[0] == "Bin" and c[2] in ("<", ">") and num(c[4]) == 0):
            continue
        lhs = T.text(c[3]).replace(" ", "")
        sign = -1 if c[2] == "<" else 1
        if lhs.startswith("l_x["):
            ws = [T.text(w[3]).replace(" ", "") for w in T.walk(x[3]) if w[0] == "Bin" and w[2] == "=" and "l_cu" in T.text(w[3])]
            if ws:
                setup[sign] = (ws[0], x[1])
        if lhs.startswith("x_arg[") or lhs.startswith("operator[](x_arg"):
            inner = [y for y in T.walk(x[3]) if y[0] == "If"]
            for y in inner:
                ic = T.strip_casts(y[2])
                if ic[0] == "Bin" and ic[2] in ("<", ">") and T.text(ic[3]).replace(" ", "").startswith("l_x["):
                    rejects = any(w[0] == "Bin" and w[2] == "=" and "l_kode" in T.text(w[3]) for w in T.walk(y[3]))
                    neg_tol = T.strip_casts(ic[4])[0] == "Un"
                    check[sign] = (ic[2], neg_tol, rejects, y[1])
    if -1 in setup and 1 in setup and setup[-1][0] != setup[1][0] and ("cu_dim" in setup[1][0]) != ("cu_dim" in setup[-1][0]):
        R.ok("C18.sign", "cl1:bounds", "negative constraint -> %s, positive -> %s (distinct bound halves)" % (setup[-1][0], setup[1][0]))
    else:
        R.violation("C18.sign", "cl1:bounds", "cl1 does not send negative and positive sign constraints to distinct halves of its bound array (%s)" % setup, line=cl["line"], **where)
    okc = (-1 in check and check[-1][0] == ">" and not check[-1][1] and check[-1][2]) and (1 in check and check[1][0] == "<" and check[1][1] and check[1][2])
    if okc:
        R.ok("C18.sign", "cl1:final-check", "negative constraint rejects x > tol, positive rejects x < -tol")
    else:
        R.violation("C18.sign", "cl1:final-check", "the final dissolution/precipitation check of cl1 does not reject x > tol under a negative and x < -tol under a positive constraint (%s)" % check,
                    line=cl["line"], **where)

    # ---- model file marks
    marks = {}
    for key, f in sorted(P.functions.items()):
        if not f["q"].startswith("Phreeqc::"):
            continue
        for sw in T.walk(f["body"]):
            if sw[0] == "Switch" and T.text(sw[2]).endswith("constraint"):
                from .. import rawio
                for labels, stmts, line in rawio.switch_groups(sw):
                    chars = []
                    for s_ in stmts:
                        for w in T.walk(s_):
                            if w[0] == "Lit" and w[2] == "char":
                                try:
                                    chars.append(chr(int(w[3])))
                                except (ValueError, TypeError):
                                    chars.append(str(w[3]).strip("'"))
                    for l in labels:
                        marks[l] = (chars, line, f)
    if marks:
        okm = True
        for k, want in ((int(PREC), ["+", "-"]), (int(DISS), ["-", "+"])):
            if k not in marks or marks[k][0][:2] != want:
                okm = False
        f = list(marks.values())[0][2]
        if okm:
            R.ok("C18.sign", "model-file:marks", "precipitate '-' (exchanger '+'), dissolve '+' (exchanger '-')")
        else:
            R.violation("C18.sign", "model-file:marks", "the model file does not mark precipitate '-' and dissolve '+' (%s)" % {k: v[0] for k, v in marks.items()},
                        file=f["file"], line=list(marks.values())[0][1], function=f["q"])
    else:
        R.anchor_missing("C18.sign", "switch over the phase constraint (model file) not found")

    spread_rule(P, R)
    init_rule(P, R)
    # ------------------------------------------------------------------ set predicates
    R.rule("C18.sets", "superset_minimal / subset_bad / subset_minimal test the inclusions their names state", minimum=3)
    for q, store, kind in (("superset_minimal", "minimal", "super"), ("subset_bad", "bad", "sub"), ("subset_minimal", "minimal", "sub")):
        f = P.one("Phreeqc::" + q)
        where = dict(file=f["file"], line=f["line"], function=f["q"])
        bits = f["pnames"][0]
        tmp = None
        okk = False
        why = "pattern not found"
        for x in T.walk(f["body"]):
            if x[0] == "Bin" and x[2] == "=" and T.strip_casts(x[3])[0] == "Ref":
                r = T.strip_casts(x[4])
                if r[0] == "Bin" and r[2] == "|":
                    ops = sorted([T.text(r[3]).replace(" ", ""), T.text(r[4]).replace(" ", "")])
                    elem = [o for o in ops if o != bits]
                    if bits in ops and len(elem) == 1 and store in elem[0]:
                        tmp = (T.strip_casts(x[3])[3], elem[0])
                    else:
                        why = "the union is taken of %s" % ops
        if tmp:
            for x in T.walk(f["body"]):
                if x[0] == "If":
                    c = T.strip_casts(x[2])
                    if c[0] == "Bin" and c[2] == "==":
                        sides = sorted([T.text(c[3]).replace(" ", ""), T.text(c[4]).replace(" ", "")])
                        other = [s_ for s_ in sides if s_ != tmp[0]]
                        if tmp[0] in sides and len(other) == 1:
                            returns_true = any(y[0] == "Return" and T.lit_value(y[2]) == 1 for y in T.walk(x[3]))
                            if kind == "super" and other[0] == bits and returns_true:
                                okk = True
                            elif kind == "sub" and other[0] == tmp[1] and returns_true:
                                okk = True
                            else:
                                why = "(%s | %s) is compared with %s" % (bits, tmp[1], other[0])
        if okk:
            R.ok("C18.sets", q, "(bits | %s[i]) == %s" % (store, "bits" if kind == "super" else store + "[i]"))
        else:
            R.violation("C18.sets", q, "%s does not test that %s: %s" % (q, "some %s[i] is a subset of bits" % store if kind == "super" else "bits is a subset of some %s[i]" % store, why), **where)


def spread_rule(P, R):
    R.rule("C18.spread", "uncertainties declared for an element's primary name are copied to every valence-state row, for every solution", minimum=2)
    f = P.one("Phreeqc::tidy_inverse")
    where = dict(file=f["file"], function=f["q"])
    n = 0
    for lp in T.walk(f["body"]):
        if lp[0] != "For":
            continue
        body = lp[5][2] if lp[5][0] == "Compound" else [lp[5]]
        for st in body:
            if not (T.is_node(st) and st[0] == "If"):
                continue
            c = T.strip_casts(st[2])
            if not (c[0] == "Bin" and c[2] == "=="):
                continue
            sides = [T.strip_casts(c[3]), T.strip_casts(c[4])]
            proj = [s_ for s_ in sides if s_[0] == "Member" and s_[2].split("::")[-1] == "primary" and "inv_elts" in T.text(s_)]
            copies = [w for w in T.walk(st[3]) if w[0] == "Bin" and w[2] == "=" and "uncertainties" in T.text(w[3]) and "uncertainties" in T.text(w[4])]
            if not proj or not copies:
                continue
            n += 1
            inst = "tidy_inverse:primary-match@%d" % st[1]
            brk = [w for w in T.walk(st[3]) if w[0] in ("Break", "Goto", "Return")]
            inner_break = [w for l2 in T.walk(st[3]) if l2[0] == "For" for w in T.walk(l2[5]) if w[0] == "Break"]
            brk = [w for w in brk if w not in inner_break]
            if brk:
                R.violation("C18.spread", inst, "the loop that spreads an element's declared uncertainty over the rows of all its valence states leaves at the first match (line %d): the other "
                            "valence states keep the global uncertainty and models violating the declared one are reported" % brk[0][1], line=brk[0][1], **where)
            else:
                R.ok("C18.spread", inst, "every row whose element has this primary master is visited")
            inner = [l2 for l2 in T.walk(st[3]) if l2[0] == "For" and any(w in copies for w in T.walk(l2[5]))]
            if inner and "count_solns" in T.text(inner[0][3]):
                R.ok("C18.spread", inst + ":solutions", "copied for every solution")
            else:
                R.violation("C18.spread", inst + ":solutions", "the declared uncertainties are not copied for every solution (loop bound `%s`)" % (T.text(inner[0][3]) if inner else "?"), line=st[1], **where)
    if n == 0:
        R.anchor_missing("C18.spread", "tidy_inverse: the loop matching rows by elt->primary was not found")


def rangeinit_rule(P, R):
    """"every value lies within its reported minimum..maximum range": range() computes the minimum and the maximum of every unknown of ONE
    model into min_delta / max_delta; entries of unknowns that are not in the model are never stored, so each array has to be cleared at
    the top of range() - otherwise a phase absent from the model is reported with the range it had in the previous model.  Both arrays
    that range() stores into are the destination of a whole-array clear (memcpy from inv_zero / fill) before the first store."""
    RULE = "C18.rangeinit"
    R.rule(RULE, "range() clears min_delta and max_delta before it stores the extrema of the current model", minimum=2)
    f = P.one("Phreeqc::range")
    where = dict(file=f["file"], function=f["q"])
    clears, stores = {}, {}
    for x in T.walk(f["body"]):
        if x[0] == "Call" and T.callee_name(x) in ("memcpy", "memset", "fill", "assign") and x[4]:
            for y in T.walk(x[4][0]):
                if y[0] == "Member" and y[2] in ("Phreeqc::min_delta", "Phreeqc::max_delta"):
                    clears.setdefault(y[2].split("::")[-1], []).append(x[1])
        if x[0] == "Bin" and x[2] == "=":
            for y in T.walk(x[3]):
                if y[0] == "Member" and y[2] in ("Phreeqc::min_delta", "Phreeqc::max_delta"):
                    stores.setdefault(y[2].split("::")[-1], []).append(x[1])
    for arr in ("min_delta", "max_delta"):
        if arr not in stores:
            R.anchor_missing(RULE, "range(): no store into %s found" % arr)
            continue
        if arr in clears and min(clears[arr]) < min(stores[arr]):
            R.ok(RULE, arr, "cleared at line %d, first store at line %d" % (min(clears[arr]), min(stores[arr])))
        else:
            R.violation(RULE, arr, "range() stores into %s (line %d) without clearing it first: an unknown that is not part of the current model keeps the %s of the previous "
                        "model, e.g. a phase left out is reported as transfer 0 with a non-zero range" % (arr, min(stores[arr]), "maximum" if arr.startswith("max") else "minimum"),
                        line=min(stores[arr]), **where)


def init_rule(P, R):
    R.rule("C18.init", "setup_inverse zero-fills the sign-constraint vector before the first store into it", minimum=1)
    f = P.one("Phreeqc::setup_inverse")
    fills = []
    stores = []
    for x in T.walk(f["body"]):
        if x[0] == "Call" and T.callee_name(x) == "memcpy" and x[4]:
            dst = T.text(x[4][0]).replace(" ", "")
            if "delta" in dst and "min_delta" not in dst and "max_delta" not in dst and "delta1" not in dst and "delta2" not in dst and "inv_zero" in T.text(x[4][1]):
                fills.append(x[1])
        if x[0] == "Bin" and x[2] == "=":
            t = T.text(x[3]).replace(" ", "")
            if t.startswith("operator[](delta,") or t.startswith("delta["):
                stores.append(x[1])
    if not fills or not stores:
        R.anchor_missing("C18.init", "setup_inverse: zero-fill (%d) / stores (%d) of delta not found" % (len(fills), len(stores)))
        return
    if max(fills) < min(stores):
        R.ok("C18.init", "setup_inverse:delta", "zero-filled at line %d, first store at line %d" % (max(fills), min(stores)))
    else:
        R.violation("C18.init", "setup_inverse:delta", "the sign-constraint vector is zero-filled at line %d after a store at line %d: the `only positive adjustments` constraint of an element "
                    "absent from a solution is erased" % (max(fills), min(stores)), file=f["file"], line=max(fills), function=f["q"])


def phasecoef_rule(P, R):
    """"Each reported model satisfies, for every element, the mole balance between ... phase transfers ...": the column of a phase in the
    mole-balance matrix receives, for every species of the phase's reaction, stoichiometric coefficient x atoms of the master element
    per species, in the row of that master (`row = m->in`).  The atoms factor must be read from the same master m (`coef = m->coef`:
    2 for N2, O2, H2): taken from another master (the element's primary, whose coefficient is 1) a mole of N2(g) enters the N row once
    instead of twice and every transfer of such a phase is reported doubled."""
    RULE = "C18.phasecoef"
    R.rule(RULE, "setup_inverse, phase columns: the atoms-per-species factor is read from the master whose row receives the entry", minimum=1)
    f = P.one("Phreeqc::setup_inverse")
    loops = [x for x in T.walk(f["body"]) if x[0] == "For" and T.is_node(x[3]) and any(y[0] == "Member" and y[2].endswith("::phases") for y in T.walk(x[3]))]
    n = 0
    for lp in loops:
        body = lp[5]
        coefs, rows, uses = [], [], False
        for x in T.walk(body):
            if x[0] == "Bin" and x[2] == "=":
                l, r = T.strip_casts(x[3]), T.strip_casts(x[4])
                if T.is_node(l) and l[0] == "Ref" and l[3] == "coef":
                    for y in T.walk(x[4]):          # also `coef = (m->coef > 0) ? m->coef : 1.0`
                        if y[0] == "Member" and y[2] == "master::coef":
                            coefs.append((x[1], " ".join(T.text(y[3]).split())))
                if T.is_node(l) and l[0] == "Ref" and T.is_node(r) and r[0] == "Member":
                    if l[3] == "row" and r[2] == "master::in" and T.is_node(T.strip_casts(r[3])) and T.strip_casts(r[3])[0] == "Ref" and T.strip_casts(r[3])[2] == "local":
                        rows.append((x[1], " ".join(T.text(r[3]).split())))
                if any(y[0] == "Bin" and y[2] == "*" and any(z[0] == "Ref" and z[3] == "coef" for z in T.walk(y)) for y in T.walk(x[4])) and any(
                        y[0] == "Member" and y[2] == "Phreeqc::my_array" for y in T.walk(x[3])):
                    uses = True
        if not coefs or not uses:
            continue
        n += 1
        rowbases = {b for _, b in rows if b != "master_alk"}
        for line, b in sorted(set(coefs)):
            inst = "phases@%d" % line
            if b in rowbases:
                R.ok(RULE, inst, "row = %s->in and coef = %s->coef" % (b, b))
            else:
                R.violation(RULE, inst, "the entry goes to the row of `%s` but the atoms-per-species factor is read from `%s`: for species with more than one atom of the master element "
                            "(N2, O2, H2) the phase enters the element's mole balance with the wrong weight" % (", ".join(sorted(rowbases)) or "?", b), file=f["file"], line=line, function=f["q"])
    if n < 1:
        R.anchor_missing(RULE, "setup_inverse: phase-column loop with `token coefficient * coef` not found")


def minimalrange_rule(P, R):
    """"with -minimal no reported model's set strictly contains that of another reported model": minimal_solve reduces a feasible set by
    trying to remove its members one at a time.  The members are the bits of the entity mask - the phases, then the solutions - and every
    one of them except the last (the final solution, which a model cannot lack) must be tried: a removal loop that stops after the phases
    reports sets from which an unnecessary initial solution could still be dropped, i.e. proper supersets of other reported models.  The
    mask width is taken from the two loops that rebuild actual_bits (positions i and i + phases.size()); the bound of the removal loop is
    compared with it symbolically."""
    from .. import ratfun as RF
    RULE = "C18.minimalrange"
    R.rule(RULE, "minimal_solve: the removal loop visits every bit of the entity mask except the last one (the final solution)", minimum=1)
    f = P.one("Phreeqc::minimal_solve")

    def sym(n):
        return "".join(T.text(n, -40).split())

    def rat(n):
        return RF.from_tree(n, sym, opaque_calls=("size",))

    def loop_bound(lp):
        c = lp[3]
        if not (T.is_node(c) and c[0] == "Bin" and c[2] in ("<", "<=")):
            return None
        b = rat(c[4])
        return b + RF.Rat.const(1) if c[2] == "<=" else b
    try:
        removal = [lp for lp in T.walk(f["body"]) if lp[0] == "For" and any(T.callee_name(c) == "solve_with_mask" for c in T.calls(lp[5]))]
        setters = []
        for lp in T.walk(f["body"]):
            if lp[0] != "For":
                continue
            for c in T.calls(lp[5]):
                if T.callee_name(c) == "set_bit":
                    iv = None
                    for x in T.walk(lp[2]) if T.is_node(lp[2]) else []:
                        if x[0] == "Decl":
                            iv = x[2][0][0]
                    if iv is None:
                        continue
                    pos = rat(T.call_args(c)[1])
                    off = pos - RF.Rat.sym(iv)
                    setters.append((off, loop_bound(lp)))
        if len(removal) != 1 or len(setters) != 2 or any(b is None for _, b in setters):
            R.anchor_missing(RULE, "minimal_solve: %d removal loops, %d loops that set bits of actual_bits" % (len(removal), len(setters)))
            return
        (o1, b1), (o2, b2) = setters
        zero = RF.Rat.const(0)
        if o1.same(zero) and o2.same(b1):
            width = b1 + b2
        elif o2.same(zero) and o1.same(b2):
            width = b1 + b2
        else:
            R.anchor_missing(RULE, "minimal_solve: the loops that rebuild actual_bits do not tile the mask (offsets %r, %r)" % (o1, o2))
            return
        bound = loop_bound(removal[0])
    except RF.NotRational as e:
        R.anchor_missing(RULE, "minimal_solve: loop bound not a polynomial (%s)" % e)
        return
    if bound is not None and bound.same(width - RF.Rat.const(1)):
        R.ok(RULE, "removal-loop", "bound %r = mask width %r - 1" % (bound, width))
    else:
        R.violation(RULE, "removal-loop", "the removal loop of minimal_solve runs to %r but the entity mask has %r bits: the members from that bound to the last but one (initial solutions) "
                    "are never tried, so a reported -minimal model can strictly contain another reported model" % (bound, width), file=f["file"], line=removal[0][1], function=f["q"])


def isokey_rule(P, R):
    """An isotope of the inverse model is identified by element AND isotope number (13C, 14C): the model's list inverse::isotopes, the
    isotope unknowns and the isotopes on the phase lines are matched against each other throughout inverse.cpp.  Every equality test of the
    elt_name of such a record must stand in one logical expression with a test of the isotope number - a match on the element alone
    takes 14C for 13C (read_inv_isotopes dropped the second isotope of an element without a message)."""
    RULE = "C18.isokey"
    R.rule(RULE, "every comparison of an isotope record's elt_name is joined with a comparison of the isotope number", minimum=6)
    n = 0

    def has_number(root):
        for y in T.walk(root):
            if y[0] == "Member" and y[2].endswith("::isotope_number"):
                return True
            if y[0] == "Call" and T.callee_name(y) == "Get_isotope_number":
                return True
            if y[0] == "Ref" and y[2] in ("local", "param") and y[3] == "isotope_number":
                return True
        return False

    for k, g in sorted(P.functions.items(), key=lambda kv: (kv[1]["file"], kv[1]["line"])):
        if not g.get("body"):
            continue

        def visit(node, root):
            nonlocal n
            if not T.is_node(node):
                return
            logical = node[0] == "Bin" and node[2] in ("&&", "||")
            here = root if (root is not None and (logical or node[0] in ("Paren", "Cast", "Un"))) else (node if logical else None)
            if node[0] == "Bin" and node[2] in ("==", "!="):
                ms = [m for side in (node[3], node[4]) for m in [T.strip_casts(side)] if T.is_node(m) and m[0] == "Member" and m[2] in ("inv_isotope::elt_name", "isotope::elt_name")]
                if ms:
                    n += 1
                    inst = "%s@%d" % (g["q"].split("::")[-1], node[1] - g["line"])
                    scope = root if root is not None else node
                    if has_number(scope):
                        R.ok(RULE, inst, "element and isotope number")
                    else:
                        R.violation(RULE, inst, "`%s` matches an isotope record on the element name alone: a second isotope of the same element (14C beside 13C) is taken for the first"
                                    % T.text(node)[:70], file=g["file"], line=node[1], function=g["q"])
                    return
            for c in node[2:]:
                if isinstance(c, list):
                    if c and isinstance(c[0], str):
                        visit(c, here)
                    else:
                        for cc in c:
                            if isinstance(cc, list) and cc and isinstance(cc[0], str):
                                visit(cc, None)
        visit(g["body"], None)
    if n < 6:
        R.anchor_missing(RULE, "only %d comparisons of an isotope record's elt_name found" % n)


def isoskip_rule(P, R):
    """phase_isotope_inequalities writes, for every isotope j of every phase i, the optimisation entry and the two rows that bound the
    adjustment of the isotope ratio by its declared uncertainty.  Inside the loop over j nothing may leave the loop: an isotope that is
    not balanced (not in the -isotopes list), has zero uncertainty or belongs to an unconstrained phase is skipped with `continue`; a
    `break` also skips the isotopes that follow it, whose adjustment is then unbounded."""
    RULE = "C18.isoskip"
    R.rule(RULE, "phase_isotope_inequalities: the loop over a phase's isotopes skips single isotopes (continue), it is never left early", minimum=3)
    f = P.one("Phreeqc::phase_isotope_inequalities")
    loops = [lp for lp in T.walk(f["body"]) if lp[0] == "For"]
    # the loop over the phase's isotopes: its bound mentions phases[i].isotopes
    target = [lp for lp in loops if "phases" in T.text(lp[3], -40) and "isotopes" in T.text(lp[3], -40) and "size" in T.text(lp[3], -40)]
    if len(target) != 1:
        R.anchor_missing(RULE, "phase_isotope_inequalities: loop over the isotopes of a phase not found (%d candidates)" % len(target))
        return
    n = 0

    def visit(node, depth):
        nonlocal n
        if not T.is_node(node):
            return
        if node[0] in ("For", "While", "Do", "Switch"):
            depth += 1
        if node[0] == "Continue" and depth == 0:
            n += 1
            R.ok(RULE, "continue@%d" % (node[1] - f["line"]), "skips one isotope")
        if node[0] in ("Break", "Return", "Goto") and (depth == 0 or node[0] != "Break"):
            n += 1
            R.violation(RULE, "%s@%d" % (node[0].lower(), node[1] - f["line"]), "the loop over the isotopes of a phase is left by `%s`: the isotopes of the phase that follow get no "
                        "uncertainty bounds and their adjustment is free" % node[0].lower(), file=f["file"], line=node[1], function=f["q"])
        for c in node[2:]:
            if isinstance(c, list):
                if c and isinstance(c[0], str):
                    visit(c, depth)
                else:
                    for cc in c:
                        if isinstance(cc, list) and cc and isinstance(cc[0], str):
                            visit(cc, depth)
    visit(target[0][5], 0)
    if n < 3:
        R.anchor_missing(RULE, "phase_isotope_inequalities: only %d skip statements in the isotope loop" % n)


def cl1check_rule(P, R):
    """"every reported model satisfies the mole balances within the declared uncertainties": the last line of defence is the block at the
    end of cl1 that re-verifies the optimisation, equality and inequality rows of the vertex the simplex returned and turns the exit code
    into 1 when round-off has produced a vertex that violates them.  Inverse modelling always ENTERS cl1 with kode = 1 (sign
    constraints given) and accepts the result when the EXIT code is 0: the block must therefore be guarded by `check` and by the
    current `*l_kode` only; a guard on the saved entry code (kode_arg) switches the verification off for every inverse problem."""
    RULE = "C18.cl1check"
    R.rule(RULE, "cl1: the final verification of the returned vertex is guarded by `check` and the exit code only, so that it runs for problems entered with kode = 1", minimum=1)
    fs = [g for g in P.functions.values() if g.get("body") and g["q"].split("::")[-1] == "cl1" and g["file"].endswith("cl1.cpp")]
    if len(fs) != 1:
        R.anchor_missing(RULE, "cl1 found %d times" % len(fs))
        return
    f = fs[0]
    blocks = [x for x in T.walk(f["body"]) if x[0] == "If" and any(w[0] == "Bin" and w[2] == "=" and T.text(T.strip_casts(w[3])) == "check_toler" for w in
                                                                   (x[3][2] if T.is_node(x[3]) and x[3][0] == "Compound" else [x[3]]) if T.is_node(w))]
    if len(blocks) != 1:
        R.anchor_missing(RULE, "cl1: the verification block (sets check_toler) was found %d times" % len(blocks))
        return
    blk = blocks[0]

    def conj(c):
        c = T.strip_casts(c)
        if T.is_node(c) and c[0] == "Paren":
            return conj(c[2])
        if T.is_node(c) and c[0] == "Bin" and c[2] == "&&":
            return conj(c[3]) + conj(c[4])
        return [c]
    cs = conj(blk[2])
    texts = ["".join(T.text(c, -40).split()) for c in cs]
    kode_p = [n_ for n_, t in zip(f["pnames"], f["params"]) if "kode" in n_]
    bad = [t for t in texts if not (t.startswith("check") or any(("*" + k) in t for k in kode_p))]
    exit_tested = any(any(("*" + k) in t for k in kode_p) for t in texts)
    sets_exit = any(w[0] == "Bin" and w[2] == "=" and any(("*" + k) == "".join(T.text(T.strip_casts(w[3])).split()) for k in kode_p) for w in T.walk(blk[3]))
    if not sets_exit:
        R.anchor_missing(RULE, "cl1: the verification block no longer sets the exit code")
        return
    if bad or not exit_tested:
        R.violation(RULE, "guard", "the verification block of cl1 is guarded by `%s`: %s - inverse modelling enters with kode = 1 and relies on this block to reject "
                    "round-off vertices (adjustments beyond the uncertainties, wrong signs)" % (T.text(blk[2])[:70], ("the conjunct `%s` does not test the check flag or the "
                    "current exit code" % bad[0]) if bad else "the current exit code is not tested"), file=f["file"], line=blk[1], function=f["q"])
    else:
        R.ok(RULE, "guard", "guarded by %s" % " && ".join(texts))


SEARCHIDX_INVARIANT = {
    # (function, loop variable): why the search cannot fail (confirmed by reading)
    ("Phreeqc::range", "j"): "col_back is a permutation of the n columns handed to cl1: every column index i occurs",
    ("Phreeqc::set_isotope_unknowns", "k"): "the primary master species of an element is an element of Phreeqc::master",
    ("Phreeqc::quick_setup", "i"): "reached only when ss_unknown / the searched unknown type exists in x[] (the pointer tested by the enclosing if is one of them)",
    ("Phreeqc::get_list_master_ptrs", "j"): "master_ptr0 was obtained from Phreeqc::master",
}


def searchidx_rule(P, R):
    """A search loop `for (k = 0; k < N; k++) if (match) break;` leaves k == N when nothing matches.  Using k afterwards as an index or in
    column arithmetic without first comparing it with the bound addresses something else: isotope_balance_equation computed
    `col_epsilon + k * count_solns + i` for an element that is not a mole-balance constraint, which is the pH column - the isotope
    balance was absorbed by a pH adjustment and an inadmissible model reported.  Census of the whole engine: every such loop whose index
    is used before it is tested is listed; the ones that rely on an invariant are frozen in a table with the invariant."""
    RULE = "C18.searchidx"
    R.rule(RULE, "after a search loop that breaks on a match, the loop index is tested against the bound before it is used (or the search cannot fail)", minimum=4)

    def single(st):
        while T.is_node(st) and st[0] == "Compound" and len(st[2]) == 1:
            st = st[2][0]
        return st
    seen = set()
    for f in sorted(P.functions.values(), key=lambda g: (g["file"], g["line"])):
        if not f.get("body") or any(x in f["file"] for x in ("cvode", "nvector", "sundials", "dense")):
            continue
        for blk in T.walk(f["body"]):
            if blk[0] != "Compound":
                continue
            st = blk[2]
            for i, lp in enumerate(st):
                if not (T.is_node(lp) and lp[0] == "For" and T.is_node(lp[3]) and lp[3][0] == "Bin" and lp[3][2] in ("<", "<=")):
                    continue
                v = T.strip_casts(lp[3][3])
                if not (T.is_node(v) and v[0] == "Ref"):
                    continue
                var = v[3]
                body = single(lp[5])
                if not (T.is_node(body) and body[0] == "If" and not T.is_node(body[4]) and T.is_node(single(body[3])) and single(body[3])[0] == "Break"):
                    continue
                for nx in st[i + 1:]:
                    if not T.is_node(nx):
                        continue
                    if not any(y[0] == "Ref" and y[3] == var for y in T.walk(nx)):
                        if nx[0] in ("Return", "Break", "Continue", "Goto"):
                            break
                        continue
                    if nx[0] == "If" and any(y[0] == "Ref" and y[3] == var for y in T.walk(nx[2])):
                        break
                    if nx[0] == "Bin" and nx[2] == "=" and T.is_node(T.strip_casts(nx[3])) and T.strip_casts(nx[3])[0] == "Ref" and T.strip_casts(nx[3])[3] == var:
                        break
                    if nx[0] == "For" and T.is_node(nx[2]) and any(T.is_node(T.strip_casts(w[0])) and T.strip_casts(w[0])[0] == "Ref" and T.strip_casts(w[0])[3] == var
                                                                   for w in T.writes(nx[2])):
                        break
                    key = (f["q"], var)
                    inst = "%s:%s@%d" % (f["q"].split("::")[-1], var, lp[1] - f["line"])
                    if key in SEARCHIDX_INVARIANT:
                        seen.add(key)
                        R.ok(RULE, inst, "cannot fail: " + SEARCHIDX_INVARIANT[key])
                    else:
                        R.violation(RULE, inst, "the search loop over %s (line %d) may end without a match, and %s is then used at line %d (`%s`) without having been compared with the "
                                    "bound: the expression addresses an unrelated row / column" % (var, lp[1], var, nx[1], T.text(nx)[:50]), file=f["file"], line=nx[1], function=f["q"])
                    break
    for key in SEARCHIDX_INVARIANT:
        if key not in seen:
            R.anchor_missing(RULE, "table row %s:%s matched no loop" % key)


def iunumber_rule(P, R):
    """The uncertainties of the -isotopes list (inverse::i_u) belong to one isotope (element AND number).  A loop that selects the i_u entry
    for a solution isotope must compare the isotope numbers of the two, not only their master species - with 13C and 14C listed, the
    last entry of the element won and 13C was given the uncertainty of 14C."""
    RULE = "C18.iunumber"
    R.rule(RULE, "every loop that selects an entry of inverse::i_u for an isotope compares the isotope number", minimum=1)
    n = 0
    for f in sorted(P.functions.values(), key=lambda g: (g["file"], g["line"])):
        if not f.get("body"):
            continue
        for lp in T.walk(f["body"]):
            if lp[0] != "For" or not T.is_node(lp[3]):
                continue
            if not any(y[0] == "Member" and y[2] == "inverse::i_u" for y in T.walk(lp[3])):
                continue
            uses = [y for y in T.walk(lp[5]) if y[0] == "Member" and y[2] == "inverse::i_u"]
            selects = any(y[0] == "Break" for y in T.walk(lp[5]))
            if not uses or not selects:
                continue
            n += 1
            inst = "%s@%d" % (f["q"].split("::")[-1], lp[1] - f["line"])
            cmpn = [x for x in T.walk(lp[5]) if x[0] == "Bin" and x[2] in ("==", "!=") and any(y[0] == "Member" and y[2].endswith("::isotope_number") for y in T.walk(x))]
            if cmpn:
                R.ok(RULE, inst, "isotope number compared (line %d)" % cmpn[0][1])
            else:
                R.violation(RULE, inst, "the loop selects an entry of the -isotopes uncertainties by element only: with two isotopes of one element listed, the uncertainty of one "
                            "is applied to the other", file=f["file"], line=lp[1], function=f["q"])
    if n < 1:
        R.anchor_missing(RULE, "no selecting loop over inverse::i_u found")
