"""Structural normal form of statement trees, for sibling agreement (overload families, parallel branches).

shape(node, subst) -> nested tuples / strings with line numbers dropped, casts elided, callees reduced to their
unqualified name, and identifiers mapped through `subst` (a dict name -> abstract name).  Two siblings agree when
their shapes are equal under the family's substitution."""
from . import tree as T


def shape(n, subst=None, keep_str=True):
    subst = subst or {}

    def nm(x):
        return subst.get(x, x)

    def rec(n):
        if not T.is_node(n):
            if isinstance(n, list):
                return tuple(rec(c) for c in n)
            return n
        k = n[0]
        if k == "Cast":
            return rec(n[3])
        if k == "Call":
            c = n[2]
            name = T.base_name(c.get("q", "?")) if isinstance(c, dict) else "?"
            return ("Call", nm(name), rec(n[3]) if T.is_node(n[3]) else None, tuple(rec(a) for a in n[4]))
        if k == "Construct":
            c = n[2]
            return ("Construct", nm(c.get("cls", "?")) if isinstance(c, dict) else "?", tuple(rec(a) for a in n[3]))
        if k == "Member":
            return ("Member", nm(n[2].split("::")[-1]), rec(n[3]))
        if k == "MemberFn":
            return ("MemberFn", nm(n[2].split("::")[-1]), rec(n[3]))
        if k == "Ref":
            if n[2] == "enum":
                return ("Enum", n[3].split("::")[-1])
            return ("Ref", n[2] if n[2] != "param" else "param", nm(n[3].split("::")[-1]))
        if k == "Lit":
            if n[2] == "str" and not keep_str:
                return ("Lit", "str")
            return ("Lit", n[2], n[3])
        if k == "Decl":
            return ("Decl", tuple((nm(d[0]), rec(d[2])) for d in n[2]))
        if k == "Try":
            return ("Try", rec(n[2]), tuple((h[0], rec(h[1])) for h in n[3]))
        if k == "If":
            return ("If", rec(n[2]), rec(n[3]), rec(n[4]), rec(n[5]))
        if k == "Case":
            return ("Case", n[3], rec(n[4]))
        if k == "RangeFor":
            return ("RangeFor", nm(n[2][0]), rec(n[3]), rec(n[4]))
        out = [k]
        for c in n[2:]:
            if T.is_node(c):
                out.append(rec(c))
            elif isinstance(c, list):
                out.append(tuple(rec(cc) for cc in c))
            else:
                out.append(c)
        return tuple(out)
    return rec(n)


def first_difference(a, b, path=""):
    """human-readable location of the first difference between two shapes"""
    if a == b:
        return None
    if isinstance(a, tuple) and isinstance(b, tuple):
        if len(a) != len(b):
            return "%s: %d vs %d parts (%s | %s)" % (path or "root", len(a), len(b), _brief(a), _brief(b))
        for i, (x, y) in enumerate(zip(a, b)):
            d = first_difference(x, y, path + "/" + (str(a[0]) if i and isinstance(a[0], str) else str(i)))
            if d:
                return d
        return None
    return "%s: %s vs %s" % (path or "root", _brief(a), _brief(b))


def _brief(x):
    s = str(x)
    return s if len(s) < 90 else s[:87] + "..."
