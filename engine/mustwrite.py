"""RF1 – structural must-write analysis.

must(fn) = set of field paths (tuples of field qualified names, rooted at `this`) that are definitely written on every
normal-completion path of fn.  Sound for *must* (may under-approximate):
  sequence = union; if = intersection of branches (missing else = {}); switch / while / general for = {};
  do-body and for-loops with constant bounds count; after a statement that may leave the function early (return / goto /
  break out, throw) inside a conditional, later statements no longer count; try body counts, handlers do not;
  a resolved non-virtual call on this (or on a member object) contributes the callee's must-set (memoised; recursion = {}).
A *cover* is a plain assignment, a clearing/resetting library method (clear, erase(), assign, resize, ...), delete+assign,
`x = free_check_null(x)`, or a write through `&field` handed to a function in BY_ADDRESS_RESETTERS.
"""
from . import tree as T
from .callgraph import get as callgraph

COVER_METHODS = {"clear", "assign", "resize", "erase", "swap", "operator=", "reset", "str", "init", "Init", "Clear", "Reset"}

# free/project functions that (re)initialise the object whose address they receive: name -> index of that argument
BY_ADDRESS_RESETTERS = {"memset": 0, "VarInit": 0, "VarClear": 0}


class MustWrite:
    def __init__(self, P, extra_cover_methods=(), resize_covers=True):
        """resize_covers=False: `v.resize(n)` keeps the old elements, so it does not count as a re-initialisation of v (used where the
        question is whether state of an earlier history can survive; the lenient default suits scratch buffers that are resized and
        then filled before every use)"""
        self.P = P
        self.cg = callgraph(P)
        self.memo = {}
        self._cur = None
        self.stack = set()
        self.cover_methods = (COVER_METHODS | set(extra_cover_methods)) - (set() if resize_covers else {"resize"})

    # ------------------------------------------------------------------
    def of_function(self, key):
        if key in self.memo:
            return self.memo[key]
        if key in self.stack:
            return frozenset()
        f = self.P.functions.get(key)
        if f is None:
            return frozenset()
        self.stack.add(key)
        prev_cur = getattr(self, "_cur", None)
        self._cur = f
        acc = set()
        for i in f.get("inits", []):
            if i[0] == "field":
                acc.add((i[1],))
        s, _ = self.stmt(f["body"], f)
        acc |= s
        self._cur = prev_cur
        self.stack.discard(key)
        self.memo[key] = frozenset(acc)
        return self.memo[key]

    def path_of(self, expr):
        """field path rooted at this, or None.  Index steps are dropped only when dropping is sound for the caller
        (they are kept as a marker '[]' so that `a[i] = v` does not count as covering a)."""
        root, steps = T.access_path(expr)
        if root[0] == "param" and len(root) > 2 and root[2] >= 0 and not steps and self._cur is not None and \
                root[2] < len(self._cur["params"]) and self._cur["params"][root[2]].endswith("&") and \
                not self._cur["params"][root[2]].startswith("const "):
            return (("param", root[2]), "&")     # the referent of a reference parameter as a whole
        if root[0] == "param" and len(root) > 2 and root[2] >= 0 and steps and steps[0][0] in ("f", "*"):
            out = [("param", root[2])]
            if steps[0][0] == "*":
                steps = steps[1:]
        elif root != ("this",):
            return None
        else:
            out = []
        for st in steps:
            if st[0] == "f":
                out.append(st[1])
            elif st[0] == "[]":
                out.append("[]")
            else:
                out.append("*")
        return tuple(out)

    def expr_writes(self, n, f, in_const_loop=False):
        """must-writes performed by evaluating expression/declaration n (conditionally evaluated sub-expressions skipped)"""
        out = set()
        if not T.is_node(n):
            return out
        k = n[0]
        if k == "Bin" and n[2] in ("&&", "||"):
            return self.expr_writes(n[3], f, in_const_loop)
        if k == "Cond":
            return self.expr_writes(n[2], f, in_const_loop)
        if k == "Bin" and n[2] == "=":
            p = self.path_of(n[3])
            if p is not None:
                self._add(out, p, in_const_loop)
            out |= self.expr_writes(n[4], f, in_const_loop)
            # a[i] index expressions etc. contain no writes of interest
            return out
        if k == "Call":
            c = n[2]
            if isinstance(c, dict):
                name = T.base_name(c.get("q", ""))
                obj = n[3] if T.is_node(n[3]) else None
                if c.get("k") == "op" and n[4]:
                    obj = n[4][0]
                    if name == "operator=":
                        p = self.path_of(obj)
                        if p is not None:
                            self._add(out, p, in_const_loop)
                if obj is not None and not c.get("proj") and name in self.cover_methods and c.get("k") != "op":
                    # erase(iterator) is not a reset; erase() / erase(begin,end) is rare: accept only argument-less or clear-like
                    if name != "erase" or all((T.is_node(a) and (T.strip_casts(a)[0] == "Lit" or "npos" in T.text(a))) for a in n[4]):
                        p = self.path_of(obj)
                        if p is not None:
                            self._add(out, p, in_const_loop)
                if c.get("proj"):
                    tg = [] if c.get("k") == "virtual" and len(self.cg.resolve(c, f)) > 1 else self.cg.resolve(c, f)
                    if len(tg) == 1:
                        if obj is None or (T.is_node(obj) and obj[0] == "This"):
                            callee_f = self.P.functions[tg[0]]
                            if callee_f.get("cls") and f.get("cls") and (obj is not None or callee_f.get("cls") == f.get("cls") or self._is_base(f.get("cls"), callee_f.get("cls"))):
                                out |= set(q for q in self.of_function(tg[0]) if not (q and isinstance(q[0], tuple)))
                        else:
                            p = self.path_of(obj)
                            if p is not None and "[]" not in p and "*" not in p:
                                sub = self.of_function(tg[0])
                                for q in sub:
                                    if not (q and isinstance(q[0], tuple)):
                                        out.add(p + q)
                                if name in self.cover_methods:
                                    out.add(p)
                if c.get("proj"):
                    tg2 = self.cg.resolve(c, f)
                    if len(tg2) == 1:
                        sub = self.of_function(tg2[0])
                        for q in sub:
                            if q and isinstance(q[0], tuple) and q[0][0] == "param" and q[0][1] < len(n[4]):
                                a = T.strip_casts(n[4][q[0][1]])
                                if T.is_node(a) and a[0] == "Un" and a[2] == "&":
                                    a = a[3]
                                p = self.path_of(a)
                                if p is not None and "[]" not in p and "*" not in p:
                                    out.add(p + q[1:])
                if name in BY_ADDRESS_RESETTERS and len(n[4]) > BY_ADDRESS_RESETTERS[name]:
                    a = T.strip_casts(n[4][BY_ADDRESS_RESETTERS[name]])
                    if T.is_node(a) and a[0] == "Un" and a[2] == "&":
                        p = self.path_of(a[3])
                        if p is not None:
                            self._add(out, p, in_const_loop)
                    else:
                        p = self.path_of(a)      # array decays
                        if p is not None:
                            self._add(out, p, in_const_loop)
            for a in n[4]:
                out |= self.expr_writes(a, f, in_const_loop)
            if T.is_node(n[3]):
                out |= self.expr_writes(n[3], f, in_const_loop)
            return out
        if k == "Delete":
            return out
        for c in T.children(n):
            out |= self.expr_writes(c, f, in_const_loop)
        return out

    def _is_base(self, cls, base, depth=0):
        r = self.P.records.get(cls)
        if r is None or depth > 5:
            return False
        for b in r["bases"]:
            if b == base or self._is_base(b, base, depth + 1):
                return True
        return False

    def _add(self, out, p, in_const_loop):
        if "*" in p:
            return
        if len(p) == 1 and isinstance(p[0], tuple):
            return          # assignment to the parameter variable itself
        if len(p) == 2 and isinstance(p[0], tuple) and p[1] == "&":
            out.add((p[0],))
            return
        if "[]" in p:
            if in_const_loop:
                # array fill inside a constant-bound loop: the element write covers the array (and sub-paths after it)
                i = p.index("[]")
                q = tuple(x for x in p if x != "[]")
                if "[]" not in p[i + 1:]:
                    out.add(q)
            return
        out.add(p)

    def stmt(self, s, f, in_const_loop=False):
        """returns (must set, may_exit_early)"""
        if not T.is_node(s):
            return set(), False
        k = s[0]
        if k == "Compound":
            acc = set()
            for c in s[2]:
                w, ex = self.stmt(c, f, in_const_loop)
                acc |= w
                if ex:
                    return acc, True
            return acc, False
        if k == "If":
            acc = self.expr_writes(s[2], f, in_const_loop)
            t, te = self.stmt(s[3], f, in_const_loop)
            if T.is_node(s[4]):
                e, ee = self.stmt(s[4], f, in_const_loop)
            else:
                e, ee = set(), False
            # a branch that always leaves (ends in return/throw) does not constrain the other: handled conservatively
            both = t & e
            # null-guarded reset idiom:  if (p != NULL) { ...; p = NULL; }   (no else)  =>  p == NULL afterwards on both
            # paths, which is the value a fresh object has: counts as a (re)initialisation of p
            if not T.is_node(s[4]):
                c = T.strip_casts(s[2])
                tested = None
                if T.is_node(c) and c[0] == "Bin" and c[2] == "!=" and T.lit_value(c[4]) == 0:
                    tested = self.path_of(c[3])
                elif T.is_node(c) and c[0] == "Member":
                    tested = self.path_of(c)
                if tested is not None and tested in t and self._assigns_null(s[3], tested):
                    both = both | {tested}
            return acc | both, (te or ee or self._has_exit(s[3]) or self._has_exit(s[4]))
        if k == "For":
            acc = set()
            if T.is_node(s[2]):
                w, _ = self.stmt(s[2], f, in_const_loop)
                acc |= w
            if self._const_bounds(s):
                w, ex = self.stmt(s[5], f, True)
                acc |= w
                return acc, ex or self._has_exit(s[5], loop=True)
            return acc, self._has_exit(s[5], loop=True)
        if k in ("While", "RangeFor", "Switch"):
            body = s[3] if k in ("While", "Switch") else s[4]
            return set(), self._has_exit(body, loop=(k != "Switch"))
        if k == "Do":
            w, ex = self.stmt(s[2], f, in_const_loop)
            return w, ex or self._has_exit(s[2], loop=True)
        if k == "Try":
            w, ex = self.stmt(s[2], f, in_const_loop)
            hex_ = any(self._has_exit(h[1]) for h in s[3])
            return w, ex or hex_
        if k in ("Return", "Goto"):
            return (self.expr_writes(s[2], f, in_const_loop) if k == "Return" else set()), True
        if k in ("Break", "Continue"):
            return set(), False
        if k == "Label":
            return self.stmt(s[3], f, in_const_loop)
        if k in ("Case", "Default"):
            return set(), False
        if k == "Decl":
            acc = set()
            for d in s[2]:
                acc |= self.expr_writes(d[2], f, in_const_loop)
            return acc, False
        if k == "OtherStmt":
            return set(), False
        # expression statement
        return self.expr_writes(s, f, in_const_loop), (s[0] == "Throw")

    def _assigns_null(self, s, path):
        """does statement s contain  <path> = NULL / 0 / nullptr  as its last write of path (top-level statement of s)?"""
        stmts = s[2] if T.is_node(s) and s[0] == "Compound" else [s]
        last = None
        for st in stmts:
            if not T.is_node(st):
                continue
            for tgt, how, line, node in T.writes(st):
                if self.path_of(tgt) == path:
                    last = (how, node)
        if last is None:
            return False
        how, node = last
        return how == "=" and node[0] == "Bin" and T.lit_value(node[4]) == 0

    def _has_exit(self, s, loop=False):
        for x in T.walk(s):
            if x[0] in ("Return", "Goto", "Throw"):
                return True
        return False

    def _const_bounds(self, s):
        """for (i = c0; i < c1; i++) with integer constants c0 < c1"""
        init, cond = s[2], s[3]
        if not (T.is_node(init) and T.is_node(cond)):
            return False
        c0 = None
        if init[0] == "Bin" and init[2] == "=":
            c0 = T.lit_value(init[4])
        elif init[0] == "Decl" and len(init[2]) == 1:
            c0 = T.lit_value(init[2][0][2])
        if c0 is None:
            return False
        c = T.strip_casts(cond)
        if c[0] == "Bin" and c[2] in ("<", "<="):
            c1 = T.lit_value(c[4])
            if c1 is None:
                r = T.strip_casts(c[4])
                if T.is_node(r) and r[0] == "Sizeof" and isinstance(r[2], int):
                    c1 = r[2]
            if c1 is None:
                return False
            return c0 < c1 if c[2] == "<" else c0 <= c1
        return False


def all_fields(P, cls, seen=None):
    """fields of a class including inherited ones: list of field dicts"""
    seen = seen or set()
    r = P.records.get(cls)
    if r is None or cls in seen:
        return []
    seen.add(cls)
    out = []
    for b in r["bases"]:
        out += all_fields(P, b, seen)
    out += r["fields"]
    return out


def covered(P, must, path, ftype, depth=0):
    """is the field at `path` (of type ftype) covered by the must-set?"""
    if path in must:
        return True
    if depth > 4:
        return False
    ct = ftype.replace("class ", "").replace("struct ", "").strip()
    rec = P.records.get(ct)
    if rec is None:
        return False
    flds = all_fields(P, ct)
    if not flds:
        return False
    return all(covered(P, must, path + (fl["q"],), fl["ctype"], depth + 1) for fl in flds)


def uncovered_subfields(P, must, path, ftype, depth=0):
    ct = ftype.replace("class ", "").replace("struct ", "").strip()
    rec = P.records.get(ct)
    if path in must:
        return []
    if rec is None or depth > 4:
        return [path]
    flds = all_fields(P, ct)
    if not flds:
        return [path]
    out = []
    for fl in flds:
        out += uncovered_subfields(P, must, path + (fl["q"],), fl["ctype"], depth + 1)
    return out
