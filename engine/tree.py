"""Helpers over the resolved statement/expression trees emitted by ipqfacts.

Node shapes (lists; n[0] kind, n[1] line):
 statements  Compound[body] If[cond,then,else,init,macro] For[init,cond,inc,body] RangeFor[var,range,body]
             While[cond,body] Do[body,cond] Switch[cond,body] Case[expr,value,sub] Default[sub] Return[expr]
             Break Continue Goto[label] Label[name,sub] Try[body,[[type,handler,line]..]] Decl[[name,type,init,storage,extent]..]
             Null OtherStmt[cls,children]
 expressions Call[callee,obj,args,macro] Member[fieldq,base,type] MemberFn[q,base] Ref[kind,name,type,extra]
             Lit[kind,text] Bin[op,l,r] Un[op,sub] Cond[c,a,b] Index[base,idx] This Construct[callee,args]
             Cast[type,sub] New[type,size,init] Delete[sub] Throw[type,sub] InitList[elems] Sizeof[val,what]
             Lambda[body] StmtExpr[body] Other[cls,children]
"""

STMT_KINDS = {"Compound", "If", "For", "RangeFor", "While", "Do", "Switch", "Case", "Default", "Return", "Break",
              "Continue", "Goto", "Label", "Try", "Decl", "Null", "OtherStmt"}

ASSIGN_OPS = {"=", "+=", "-=", "*=", "/=", "%=", "&=", "|=", "^=", "<<=", ">>="}


def is_node(n):
    return isinstance(n, list) and len(n) >= 2 and isinstance(n[0], str) and isinstance(n[1], int)


def kind(n):
    return n[0] if is_node(n) else None


def children(n):
    """direct child nodes (statements and expressions) in evaluation / textual order"""
    if not is_node(n):
        return
    k = n[0]
    if k == "Try":
        yield n[2]
        for h in n[3]:
            yield h[1]
        return
    if k == "Decl":
        for d in n[2]:
            if is_node(d[2]):
                yield d[2]
        return
    if k == "RangeFor":
        if is_node(n[2][2]):
            yield n[2][2]
        yield n[3]
        yield n[4]
        return
    if k == "Call":
        if is_node(n[3]):
            yield n[3]
        for a in n[4]:
            if is_node(a):
                yield a
        return
    if k == "Construct":
        for a in n[3]:
            if is_node(a):
                yield a
        return
    for c in n[2:]:
        if is_node(c):
            yield c
        elif isinstance(c, list):
            for cc in c:
                if is_node(cc):
                    yield cc


def walk(n):
    """pre-order over all nodes"""
    stack = [n]
    while stack:
        x = stack.pop()
        if not is_node(x):
            continue
        yield x
        ch = list(children(x))
        ch.reverse()
        stack.extend(ch)


def calls(n):
    for x in walk(n):
        if x[0] == "Call":
            yield x


def callee(call):
    return call[2]


def callee_q(call):
    c = call[2]
    return c.get("q", "?") if isinstance(c, dict) else "?"


_OPS = ["<<=", ">>=", "->*", "<=>", "<<", ">>", "<=", ">=", "==", "!=", "&&", "||", "++", "--", "+=", "-=", "*=", "/=", "%=", "&=",
        "|=", "^=", "->", "()", "[]", "<", ">", "+", "-", "*", "/", "%", "&", "|", "^", "~", "!", "=", ","]


def base_name(q):
    """unqualified name of a (possibly templated) function: `std::operator<<<T>` -> `operator<<`, `a::b<c>::f<d>` -> `f`"""
    i = q.rfind("operator")
    if i >= 0 and (i == 0 or q[i - 1] == ":"):
        rest = q[i + 8:]
        for op in _OPS:
            if rest.startswith(op):
                return "operator" + op
        return "operator" + rest.split("<")[0]
    # strip template arguments
    out, depth = "", 0
    for ch in q:
        if ch == "<":
            depth += 1
        elif ch == ">":
            depth -= 1
        elif depth == 0:
            out += ch
    return out.split("::")[-1]


def callee_name(call):
    return base_name(callee_q(call))


def callee_id(call):
    c = call[2]
    return c.get("id", c.get("q", "?")) if isinstance(c, dict) else "?"


def call_args(call):
    return call[4]


def call_obj(call):
    return call[3]


def call_macro(call):
    return call[5] if len(call) > 5 else ""


def strip_casts(n):
    while is_node(n) and n[0] == "Cast":
        n = n[3]
    return n


def lit_value(n):
    """integer value of an integer/bool/char/null literal, evaluated enumerators and simple constant folding"""
    n = strip_casts(n)
    if not is_node(n):
        return None
    if n[0] == "Lit" and n[2] in ("int", "bool", "char", "null"):
        try:
            return int(n[3])
        except ValueError:
            return None
    if n[0] == "Ref" and n[2] == "enum":
        return n[5]
    if n[0] == "Un" and n[2] == "-":
        v = lit_value(n[3])
        return -v if v is not None else None
    if n[0] == "Un" and n[2] == "!":
        v = lit_value(n[3])
        return (0 if v else 1) if v is not None else None
    return None


def text(n, depth=0):
    """short human readable rendering of an expression tree (for reports only)"""
    if not is_node(n):
        return "" if n is None else str(n)
    if depth > 6:
        return "…"
    k = n[0]
    d = depth + 1
    if k == "Call":
        q = callee_q(n)
        obj = n[3]
        args = ", ".join(text(a, d) for a in n[4])
        if isinstance(n[2], dict) and n[2].get("k") == "op":
            return "%s(%s)" % (q.split("::")[-1], args)
        if is_node(obj):
            return "%s.%s(%s)" % (text(obj, d), q.split("::")[-1], args)
        return "%s(%s)" % (q, args)
    if k == "Member":
        b = text(n[3], d)
        return (b + "." if b != "this" else "") + n[2].split("::")[-1]
    if k == "MemberFn":
        return text(n[3], d) + "." + n[2].split("::")[-1]
    if k == "Ref":
        return n[3]
    if k == "Lit":
        return repr(n[3]) if n[2] == "str" else n[3]
    if k == "Bin":
        return "%s %s %s" % (text(n[3], d), n[2], text(n[4], d))
    if k == "Un":
        return (text(n[3], d) + n[2][4:]) if n[2].startswith("post") else (n[2] + text(n[3], d))
    if k == "Cond":
        return "%s ? %s : %s" % (text(n[2], d), text(n[3], d), text(n[4], d))
    if k == "Index":
        return "%s[%s]" % (text(n[2], d), text(n[3], d))
    if k == "This":
        return "this"
    if k == "Cast":
        return "(%s)%s" % (n[2], text(n[3], d))
    if k == "Construct":
        return "%s(%s)" % (n[2].get("cls", "?") if isinstance(n[2], dict) else "?", ", ".join(text(a, d) for a in n[3]))
    if k == "Throw":
        return "throw %s" % n[2]
    if k == "Return":
        return "return %s" % text(n[2], d)
    return k


# ------------------------------------------------------------------------------------------ access paths

CONTAINER_ELEMENT_METHODS = {"operator[]", "at", "front", "back", "begin", "end", "find", "rbegin", "rend", "data",
                             "c_str", "operator*", "operator->", "get", "lower_bound", "upper_bound"}


def access_path(n):
    """Resolve an lvalue-ish expression to (root, steps).
    root: ("this",) ("global",q) ("local",name) ("param",name,idx) ("call",node) ("other",node)
    steps: list of ("f", fieldq) | ("[]",) | ("*",)
    Element accessors of std containers (operator[], at, begin, ...) are steps; so `this->v[i].x` has
    steps [("f","K::v"),("[]",),("f","E::x")]."""
    steps = []
    while True:
        n = strip_casts(n)
        if not is_node(n):
            return ("other", n), list(reversed(steps))
        k = n[0]
        if k == "Member":
            steps.append(("f", n[2]))
            n = n[3]
            continue
        if k == "Index":
            steps.append(("[]",))
            n = n[2]
            continue
        if k == "Un" and n[2] == "*":
            steps.append(("*",))
            n = n[3]
            continue
        if k == "Un" and n[2] == "&":
            # &x : same object
            n = n[3]
            continue
        if k == "Un" and n[2] in ("++", "--", "post++", "post--"):
            # p++ designates (an element of) p
            n = n[3]
            continue
        if k == "Call":
            c = n[2]
            name = base_name(c.get("q", "")) if isinstance(c, dict) else ""
            if isinstance(c, dict) and not c.get("proj", False) and name in CONTAINER_ELEMENT_METHODS:
                obj = n[3] if is_node(n[3]) else (n[4][0] if n[4] else None)
                if obj is not None:
                    steps.append(("[]",))
                    n = obj
                    continue
            return ("call", n), list(reversed(steps))
        if k == "This":
            return ("this",), list(reversed(steps))
        if k == "Ref":
            if n[2] == "global":
                return ("global", n[3]), list(reversed(steps))
            if n[2] == "local":
                return ("local", n[3]), list(reversed(steps))
            if n[2] == "param":
                return ("param", n[3], n[5] if len(n) > 5 else -1), list(reversed(steps))
            return ("other", n), list(reversed(steps))
        if k == "Bin" and n[2] in (",",):
            n = n[4]
            continue
        if k == "Bin" and n[2] in ("+", "-"):
            # pointer arithmetic: p + i designates an element of p
            steps.append(("[]",))
            n = n[3]
            continue
        return ("other", n), list(reversed(steps))


MUTATING_METHODS = {"clear", "erase", "resize", "push_back", "pop_back", "insert", "assign", "swap", "emplace_back",
                    "emplace", "reserve", "append", "operator=", "operator+=", "str", "open", "close",
                    "seekg", "setf", "precision", "reset", "release", "push_front", "pop_front", "splice", "sort",
                    "unique", "merge", "shrink_to_fit", "replace", "operator<<", "operator>>", "write", "put", "flush",
                    "getline", "erase_after", "fill", "operator++", "operator--", "operator-=", "operator*=", "operator/="}


def writes(n):
    """Yield (target_expr, how, line, node) for every syntactic write inside n:
       how in: '=' (plain assign), 'op=' (compound), '++' (inc/dec), 'call:<method>' (non-const method of a
       non-project class invoked on it, e.g. v.clear()), 'delete'.
       Const methods are not writes.  Passing by address / non-const reference is reported as 'addr' / 'ref'."""
    for x in walk(n):
        k = x[0]
        if k == "Bin" and x[2] in ASSIGN_OPS:
            yield x[3], ("=" if x[2] == "=" else "op="), x[1], x
        elif k == "Un" and x[2] in ("++", "--", "post++", "post--"):
            yield x[3], "++", x[1], x
        elif k == "Call":
            c = x[2]
            if not isinstance(c, dict):
                continue
            name = base_name(c.get("q", ""))
            if c.get("k") in ("method", "virtual") and is_node(x[3]) and not c.get("const") and not c.get("static"):
                if c.get("proj") or _std_mutating(c, name):
                    yield x[3], "call:" + name, x[1], x
            elif c.get("k") == "op" and x[4] and not c.get("const"):
                if _std_mutating(c, name) or (c.get("proj") and c.get("cls")):
                    yield x[4][0], "call:" + name, x[1], x
            # by-address / by-reference arguments
            ptypes = _param_types(c)
            args = x[4]
            off = 1 if (c.get("k") == "op" and c.get("cls")) else 0   # member operator: arg0 is the object
            for i, a in enumerate(args):
                if c.get("k") == "op" and i == 0 and c.get("cls"):
                    continue
                pt = ptypes[i - off] if 0 <= i - off < len(ptypes) else ""
                a2 = strip_casts(a)
                if is_node(a2) and a2[0] == "Un" and a2[2] == "&":
                    if "const" not in pt.split("*")[0]:
                        yield a2[3], "addr", x[1], x
                elif pt.endswith("&") and not pt.startswith("const ") and "const &" not in pt and "&&" not in pt:
                    yield a, "ref", x[1], x
        elif k == "Delete":
            yield x[2], "delete", x[1], x


def _std_mutating(c, name):
    """does calling the non-const library method `name` modify the object it is called on?"""
    if name == "operator[]":
        cls = c.get("cls", "") or c.get("q", "")
        return "map" in cls          # std::map/unordered_map::operator[] inserts; vector/string/array do not
    return name in MUTATING_METHODS


def _param_types(c):
    i = c.get("id", "")
    if "(" not in i:
        return []
    inner = i[i.index("(") + 1: i.rindex(")")]
    if not inner:
        return []
    out, depth, cur = [], 0, ""
    for ch in inner:
        if ch in "<(":
            depth += 1
        elif ch in ">)":
            depth -= 1
        if ch == "," and depth == 0:
            out.append(cur)
            cur = ""
        else:
            cur += ch
    out.append(cur)
    return [o.strip() for o in out]


def param_types(c):
    return _param_types(c)


# ------------------------------------------------------------------------------------------ CFG

class CFG:
    """Control-flow graph over *atoms* (expressions, declarations, conditions).  Built from the structured tree.
    node: dict(id, kind, n (tree node or None), line, succ [ids])
    kinds: entry, exit (normal function exit), atom, cond, join, throwexit
    `terminates(atom)` (optional predicate) cuts the flow after an atom that never completes normally."""

    def __init__(self, fn, terminates=None):
        self.fn = fn
        self.nodes = []
        self.terminates = terminates
        self.entry = self._new("entry", None, fn["line"])
        self.exit = self._new("exit", None, fn.get("endline", fn["line"]))
        self.throwexit = self._new("throwexit", None, fn.get("endline", fn["line"]))
        self.labels = {}
        self.pending_gotos = []
        self.try_stack = []   # list of lists of handler entry ids
        last = self._stmt(fn["body"], [self.entry], None, None)
        for p in last:
            self._edge(p, self.exit)
        for src, lab in self.pending_gotos:
            if lab in self.labels:
                self._edge(src, self.labels[lab])
        self._preds = None

    def _new(self, kind, n, line):
        i = len(self.nodes)
        self.nodes.append({"id": i, "kind": kind, "n": n, "line": line, "succ": []})
        return i

    def _edge(self, a, b):
        if b not in self.nodes[a]["succ"]:
            self.nodes[a]["succ"].append(b)

    def _atom(self, n, preds, kind="atom"):
        """append an atom after preds; returns list of live predecessor ids for what follows"""
        i = self._new(kind, n, n[1] if is_node(n) else 0)
        for p in preds:
            self._edge(p, i)
        # an exception may leave any atom that contains a call / throw: edge to the enclosing handlers
        if self.try_stack and is_node(n):
            for h in self.try_stack[-1]:
                self._edge(i, h)
        if is_node(n):
            if any(x[0] == "Throw" for x in walk(n)) and not self.try_stack:
                # a throw expression as (part of) a statement: if it is the statement itself the flow ends
                pass
            if n[0] == "Throw":
                if not self.try_stack:
                    self._edge(i, self.throwexit)
                return []
            if self.terminates is not None and self.terminates(n):
                if not self.try_stack:
                    self._edge(i, self.throwexit)
                return []
        return [i]

    def _stmt(self, s, preds, brk, cont):
        """returns the list of node ids from which control continues after s"""
        if not is_node(s):
            return preds
        k = s[0]
        if k == "Compound":
            cur = preds
            for c in s[2]:
                cur = self._stmt(c, cur, brk, cont)
            return cur
        if k == "If":
            cur = preds
            if is_node(s[5]):
                cur = self._stmt(s[5], cur, brk, cont)
            c = self._atom(s[2], cur, "cond")
            t = self._stmt(s[3], c, brk, cont)
            e = self._stmt(s[4], c, brk, cont) if is_node(s[4]) else c
            return list(dict.fromkeys(t + e))
        if k in ("While", "For", "RangeFor"):
            cur = preds
            if k == "For" and is_node(s[2]):
                cur = self._stmt(s[2], cur, brk, cont)
            if k == "RangeFor" and is_node(s[3]):
                cur = self._atom(s[3], cur)
            head = self._new("join", None, s[1])
            for p in cur:
                self._edge(p, head)
            condn = s[2] if k == "While" else (s[3] if k == "For" else None)
            if is_node(condn):
                c = self._atom(condn, [head], "cond")
            else:
                c = [head]
            after = self._new("join", None, s[1])
            infinite = (k == "For" and not is_node(condn)) or (is_node(condn) and lit_value(condn) not in (None, 0) and condn[0] == "Lit")
            if not infinite:
                for p in c:
                    self._edge(p, after)
            contj = self._new("join", None, s[1])
            body = s[3] if k == "While" else (s[5] if k == "For" else s[4])
            b = self._stmt(body, c, after, contj)
            for p in b:
                self._edge(p, contj)
            cur2 = [contj]
            if k == "For" and is_node(s[4]):
                cur2 = self._atom(s[4], cur2)
            for p in cur2:
                self._edge(p, head)
            return [after]
        if k == "Do":
            head = self._new("join", None, s[1])
            for p in preds:
                self._edge(p, head)
            after = self._new("join", None, s[1])
            contj = self._new("join", None, s[1])
            b = self._stmt(s[2], [head], after, contj)
            for p in b:
                self._edge(p, contj)
            c = self._atom(s[3], [contj], "cond")
            v = lit_value(s[3]) if is_node(s[3]) and s[3][0] == "Lit" else None
            for p in c:
                if v != 0:
                    self._edge(p, head)
                self._edge(p, after)
            return [after]
        if k == "Switch":
            c = self._atom(s[2], preds, "cond")
            after = self._new("join", None, s[1])
            self._switch_stack = getattr(self, "_switch_stack", [])
            self._switch_stack.append({"cond": c, "default": False})
            b = self._stmt(s[3], [], after, cont)
            info = self._switch_stack.pop()
            for p in b:
                self._edge(p, after)
            if not info["default"]:
                for p in c:
                    self._edge(p, after)
            return [after]
        if k in ("Case", "Default"):
            j = self._new("join", s, s[1])
            for p in preds:
                self._edge(p, j)   # fallthrough
            sw = self._switch_stack[-1] if getattr(self, "_switch_stack", None) else None
            if sw is not None:
                for p in sw["cond"]:
                    self._edge(p, j)
                if k == "Default":
                    sw["default"] = True
            sub = s[4] if k == "Case" else s[2]
            return self._stmt(sub, [j], brk, cont)
        if k == "Return":
            if is_node(s[2]):
                cur = self._atom(s, preds)
            else:
                cur = self._atom(s, preds)
            for p in cur:
                self._edge(p, self.exit)
            return []
        if k == "Break":
            if brk is not None:
                for p in preds:
                    self._edge(p, brk)
            return []
        if k == "Continue":
            if cont is not None:
                for p in preds:
                    self._edge(p, cont)
            return []
        if k == "Goto":
            j = self._new("join", s, s[1])
            for p in preds:
                self._edge(p, j)
            self.pending_gotos.append((j, s[2]))
            return []
        if k == "Label":
            j = self._new("join", s, s[1])
            for p in preds:
                self._edge(p, j)
            self.labels[s[2]] = j
            return self._stmt(s[3], [j], brk, cont)
        if k == "Try":
            hentries = []
            for h in s[3]:
                hentries.append(self._new("join", None, h[2] if len(h) > 2 else s[1]))
            self.try_stack.append(hentries)
            b = self._stmt(s[2], preds, brk, cont)
            self.try_stack.pop()
            outs = list(b)
            for h, he in zip(s[3], hentries):
                outs += self._stmt(h[1], [he], brk, cont)
            return list(dict.fromkeys(outs))
        if k == "Decl":
            return self._atom(s, preds)
        if k == "Null":
            return preds
        if k == "OtherStmt":
            cur = preds
            for c in s[3]:
                cur = self._stmt(c, cur, brk, cont)
            return cur
        # expression statement
        return self._atom(s, preds)

    # -------------------------------------------------------------- graph utilities
    def preds(self):
        if self._preds is None:
            pr = {n["id"]: [] for n in self.nodes}
            for n in self.nodes:
                for s in n["succ"]:
                    pr[s].append(n["id"])
            self._preds = pr
        return self._preds

    def reachable(self, start=None):
        start = self.entry if start is None else start
        seen, st = {start}, [start]
        while st:
            x = st.pop()
            for s in self.nodes[x]["succ"]:
                if s not in seen:
                    seen.add(s)
                    st.append(s)
        return seen

    def dominators(self, post=False):
        """returns dict node -> set of dominators (or post-dominators w.r.t. normal exit).  Unreachable nodes get {}."""
        if post:
            succ = self.preds()
            pred = {n["id"]: list(n["succ"]) for n in self.nodes}
            root = self.exit
        else:
            succ = {n["id"]: list(n["succ"]) for n in self.nodes}
            pred = self.preds()
            root = self.entry
        # reachable set from root along succ
        seen, st, order = {root}, [root], []
        while st:
            x = st.pop()
            order.append(x)
            for s in succ[x]:
                if s not in seen:
                    seen.add(s)
                    st.append(s)
        dom = {x: set(seen) for x in seen}
        dom[root] = {root}
        changed = True
        while changed:
            changed = False
            for x in order:
                if x == root:
                    continue
                ps = [p for p in pred[x] if p in seen]
                if not ps:
                    new = {x}
                else:
                    new = set.intersection(*[dom[p] for p in ps]) | {x}
                if new != dom[x]:
                    dom[x] = new
                    changed = True
        return dom

    def dataflow(self, transfer, init, join=None):
        """forward may-dataflow over frozensets: state_out = transfer(node, state_in). join = union.
        returns dict node id -> in-state (frozenset); unreachable nodes absent."""
        instate = {self.entry: frozenset(init)}
        work = [self.entry]
        while work:
            x = work.pop()
            out = transfer(self.nodes[x], instate[x])
            for s in self.nodes[x]["succ"]:
                old = instate.get(s)
                new = out if old is None else (old | out)
                if old is None or new != old:
                    instate[s] = new
                    work.append(s)
        return instate


def ordered_events(atom, pred):
    """sub-nodes of an atom matching pred, in (approximate) evaluation order: post-order for calls (arguments before
    the call), with a flag saying whether the sub-node sits in a conditionally evaluated position (rhs of && || or a
    branch of ?:)."""
    out = []

    def rec(n, cond):
        if not is_node(n):
            return
        k = n[0]
        if k == "Bin" and n[2] in ("&&", "||"):
            rec(n[3], cond)
            rec(n[4], True)
        elif k == "Cond":
            rec(n[2], cond)
            rec(n[3], True)
            rec(n[4], True)
        elif k == "Bin" and n[2] in ASSIGN_OPS:
            rec(n[4], cond)
            rec(n[3], cond)
        else:
            for c in children(n):
                rec(c, cond)
        if pred(n):
            out.append((n, cond))

    rec(atom, False)
    return out
