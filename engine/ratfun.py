"""Exact rational functions over named symbols (multivariate polynomials with Fraction coefficients, numerator/denominator).

Used to compare an assignment's right-hand side in the source with a reference formula up to algebraic equivalence: a
refactoring that keeps the formula (re-association, common factors, a/b*c vs a*c/b) compares equal, a changed coefficient,
sign, exponent or operand does not.  No evaluation of the program is involved; literals are read as exact decimals.
"""
from fractions import Fraction

from . import tree as T


class Poly:
    __slots__ = ("t",)

    def __init__(self, t=None):
        self.t = {k: v for k, v in (t or {}).items() if v != 0}

    @staticmethod
    def const(c):
        return Poly({(): Fraction(c)})

    @staticmethod
    def sym(name):
        return Poly({((name, 1),): Fraction(1)})

    def __add__(self, o):
        t = dict(self.t)
        for k, v in o.t.items():
            t[k] = t.get(k, 0) + v
        return Poly(t)

    def __neg__(self):
        return Poly({k: -v for k, v in self.t.items()})

    def __sub__(self, o):
        return self + (-o)

    def __mul__(self, o):
        t = {}
        for k1, v1 in self.t.items():
            for k2, v2 in o.t.items():
                d = dict(k1)
                for s, e in k2:
                    d[s] = d.get(s, 0) + e
                k = tuple(sorted(d.items()))
                t[k] = t.get(k, 0) + v1 * v2
        return Poly(t)

    def __eq__(self, o):
        return self.t == o.t

    def is_zero(self):
        return not self.t

    def subst_pow(self, name, base, power):
        """replace symbol `name` by base**power"""
        t = {}
        for k, v in self.t.items():
            d = dict(k)
            if name in d:
                e = d.pop(name)
                d[base] = d.get(base, 0) + e * power
            kk = tuple(sorted(d.items()))
            t[kk] = t.get(kk, 0) + v
        return Poly(t)

    def __repr__(self):
        def mono(k, v):
            s = "*".join(n if e == 1 else "%s^%d" % (n, e) for n, e in k)
            return ("%s*%s" % (v, s)) if s and v != 1 else (s or str(v))
        return " + ".join(mono(k, v) for k, v in sorted(self.t.items())) or "0"


class Rat:
    __slots__ = ("n", "d")

    def __init__(self, n, d=None):
        self.n = n
        self.d = d if d is not None else Poly.const(1)

    @staticmethod
    def const(c):
        return Rat(Poly.const(c))

    @staticmethod
    def sym(s):
        return Rat(Poly.sym(s))

    def __add__(self, o):
        return Rat(self.n * o.d + o.n * self.d, self.d * o.d)

    def __sub__(self, o):
        return Rat(self.n * o.d - o.n * self.d, self.d * o.d)

    def __neg__(self):
        return Rat(-self.n, self.d)

    def __mul__(self, o):
        return Rat(self.n * o.n, self.d * o.d)

    def __truediv__(self, o):
        if o.n.is_zero():
            raise ZeroDivisionError
        return Rat(self.n * o.d, self.d * o.n)

    def same(self, o):
        return (self.n * o.d - o.n * self.d).is_zero()

    def subst_pow(self, name, base, power):
        return Rat(self.n.subst_pow(name, base, power), self.d.subst_pow(name, base, power))

    def symbols(self):
        return set(s for p in (self.n, self.d) for k in p.t for s, e in k)

    def scaled(self, name, k):
        """the function with symbol `name` replaced by k*name"""
        def sp(p):
            t = {}
            for mono, v in p.t.items():
                e = dict(mono).get(name, 0)
                t[mono] = v * (Fraction(k) ** e)
            return Poly(t)
        return Rat(sp(self.n), sp(self.d))

    def independent_of(self, names):
        """f(2s) == f(s) as a rational identity implies f does not depend on s (zeros/poles would be scale invariant)"""
        return all(self.same(self.scaled(nm, 2)) for nm in names if nm in self.symbols())

    def at_ones(self):
        """value with every symbol set to 1 (None if the denominator vanishes)"""
        d = sum(self.d.t.values())
        return (sum(self.n.t.values()) / d) if d != 0 else None

    def __repr__(self):
        return "(%r)/(%r)" % (self.n, self.d)


class NotRational(Exception):
    pass


def from_tree(n, symbol_of, opaque_calls=()):
    """rational function of an expression tree; symbol_of(node) -> name for leaves (Ref/Member), or None to refuse.
    Calls to functions named in opaque_calls become symbols named by their printed text."""
    n = T.strip_casts(n)
    if not T.is_node(n):
        raise NotRational("empty")
    if n[0] == "Lit":
        try:
            txt = str(n[3]).rstrip("fFlL")
            return Rat.const(Fraction(txt))
        except (ValueError, ZeroDivisionError):
            raise NotRational("literal %r" % (n[3],))
    if n[0] in ("Ref", "Member"):
        s = symbol_of(n)
        if s is None:
            raise NotRational("leaf %s" % T.text(n))
        return Rat.sym(s)
    if n[0] == "Un" and n[2] in ("-", "+"):
        v = from_tree(n[3], symbol_of, opaque_calls)
        return -v if n[2] == "-" else v
    if n[0] == "Bin" and n[2] in ("+", "-", "*", "/"):
        a = from_tree(n[3], symbol_of, opaque_calls)
        b = from_tree(n[4], symbol_of, opaque_calls)
        if n[2] == "+":
            return a + b
        if n[2] == "-":
            return a - b
        if n[2] == "*":
            return a * b
        return a / b
    if n[0] == "Call" and T.callee_name(n) in opaque_calls:
        return Rat.sym(T.text(n).replace(" ", ""))
    raise NotRational("%s %s" % (n[0], T.text(n)[:40]))


def parse(text):
    """reference formula from a small infix text: symbols, decimal literals, + - * / ^int and parentheses"""
    import re
    toks = re.findall(r"\s*([A-Za-z_][A-Za-z_0-9.@]*|\d+\.?\d*(?:[eE][-+]?\d+)?|[-+*/^()])", text)
    pos = [0]

    def peek():
        return toks[pos[0]] if pos[0] < len(toks) else None

    def eat():
        pos[0] += 1
        return toks[pos[0] - 1]

    def atom():
        t = eat()
        if t == "(":
            v = expr()
            assert eat() == ")"
        elif t == "-":
            return -power()
        elif t[0].isdigit():
            v = Rat.const(Fraction(t))
        else:
            v = Rat.sym(t)
        return v

    def power():
        v = atom()
        if peek() == "^":
            eat()
            e = int(eat())
            r = Rat.const(1)
            for _ in range(e):
                r = r * v
            v = r
        return v

    def term():
        v = power()
        while peek() in ("*", "/"):
            op = eat()
            w = power()
            v = v * w if op == "*" else v / w
        return v

    def expr():
        v = term()
        while peek() in ("+", "-"):
            op = eat()
            w = term()
            v = v + w if op == "+" else v - w
        return v
    r = expr()
    assert pos[0] == len(toks), "trailing tokens in %r" % text
    return r


def names_in(body):
    """identifier names (locals, params, members, called functions) occurring in a function body"""
    out = set()
    for y in T.walk(body):
        if y[0] == "Ref" and len(y) > 3 and isinstance(y[3], str):
            out.add(y[3].split("::")[-1])
        elif y[0] == "Member":
            out.add(y[2].split("::")[-1])
        elif y[0] == "Call":
            out.add(T.callee_name(y))
    return out


def unknown_reference_symbols(want, body, ignore=()):
    """plain identifier symbols of a reference formula that do not occur in the function at all (a renamed local makes a
    formula comparison meaningless: report a vanished anchor, not a violation)"""
    have = names_in(body)
    miss = []
    for sy in sorted(want.symbols()):
        base = sy.split("@")[0].split("<")[0].split("[")[0].split(":")[0]
        if not base or not (base[0].isalpha() or base[0] == "_"):
            continue
        if base in ignore or base.isupper() and base not in have and base in ignore:
            continue
        if base not in have:
            miss.append(sy)
    return miss
