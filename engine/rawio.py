"""Writer / reader models of the RAW text format (dump_raw / read_raw) and of the binary stream (Serialize / Deserialize).

Everything is derived from the resolved statement trees; nothing is executed.

payload element: (field qualified name, constant index or None)
"""
import re

from . import tree as T

OPT_RE = re.compile(r"^\s*-([A-Za-z_][A-Za-z_0-9]*)")


# ------------------------------------------------------------------------------------------ this-field references

def this_elems(n, locals_map=None, depth=0):
    """payload elements (field, const index) of `this` referenced anywhere inside expression n; locals are followed
    through locals_map (name -> set of elements their initialiser / assignments mention)"""
    out = set()
    if not T.is_node(n):
        return out
    for x in T.walk(n):
        e = elem_of(x)
        if e is not None:
            out.add(e)
        elif x[0] == "Ref" and x[2] == "local" and locals_map and x[3] in locals_map:
            out |= locals_map[x[3]]
    # drop (f, None) when (f, k) for the same node was found as the enclosing Index
    return _prune(out, n)


def _prune(elems, n):
    # an Index node over a Member produces both the indexed element and (through walk) the bare member: keep the
    # more precise one
    idx_fields = set(f for f, i in elems if i is not None)
    bare_needed = set()
    for x in T.walk(n):
        if x[0] == "Member" and T.is_node(x[3]) and x[3][0] == "This":
            pass
    # find bare uses: Member(This) that is NOT the direct base of a constant Index
    const_bases = set()
    for x in T.walk(n):
        b, i = _const_index(x)
        if b is not None:
            const_bases.add(id(b))
    for x in T.walk(n):
        if x[0] == "Member" and T.is_node(x[3]) and x[3][0] == "This" and id(x) not in const_bases:
            bare_needed.add(x[2])
    return set((f, i) for f, i in elems if i is not None or f in bare_needed or f not in idx_fields)


def _const_index(x):
    """(member node, int) if x is  this->f[<const>]  (array subscript or std::vector/array operator[])"""
    if x[0] == "Index":
        b = T.strip_casts(x[2])
        v = T.lit_value(x[3])
        if T.is_node(b) and b[0] == "Member" and T.is_node(b[3]) and b[3][0] == "This" and v is not None:
            return b, v
    if x[0] == "Call" and T.callee_name(x) in ("operator[]", "at") and len(x[4]) >= 1:
        obj = x[3] if T.is_node(x[3]) else x[4][0]
        idx = x[4][-1] if T.is_node(x[3]) or len(x[4]) > 1 else None
        b = T.strip_casts(obj)
        v = T.lit_value(idx) if idx is not None else None
        if T.is_node(b) and b[0] == "Member" and T.is_node(b[3]) and b[3][0] == "This" and v is not None:
            return b, v
    return None, None


def elem_of(x):
    b, v = _const_index(x)
    if b is not None:
        return (b[2], v)
    if x[0] == "Member" and T.is_node(x[3]) and x[3][0] == "This":
        return (x[2], None)
    return None


def target_elem(n):
    """element designated by an lvalue expression rooted at this (first field step, constant index if directly indexed)"""
    n = T.strip_casts(n)
    cur = n
    last = None
    while T.is_node(cur):
        e = elem_of(cur)
        if e is not None:
            last = e
            if e[1] is not None:
                return e
            # keep going up? the first field from `this` is what we want: continue to the base
        k = cur[0]
        if k == "Member":
            if T.is_node(cur[3]) and cur[3][0] == "This":
                return (cur[2], None) if last is None or last[0] != cur[2] else last
            cur = cur[3]
        elif k == "Index":
            b, v = _const_index(cur)
            if b is not None:
                return (b[2], v)
            cur = cur[2]
        elif k == "Un":
            cur = cur[3]
        elif k == "Cast":
            cur = cur[3]
        elif k == "Call":
            b, v = _const_index(cur)
            if b is not None:
                return (b[2], v)
            obj = cur[3] if T.is_node(cur[3]) else (cur[4][0] if cur[4] else None)
            c = cur[2]
            if isinstance(c, dict) and c.get("proj") and not T.is_node(cur[3]):
                return None
            cur = obj
        else:
            return None
    return None


def local_elems_map(body):
    """local name -> this-elements mentioned by its initialiser or by plain assignments to it (iterators over member
    containers, references to members, copies).  Fixed point over at most 3 rounds."""
    m = {}
    for _ in range(3):
        for x in T.walk(body):
            if x[0] == "Decl":
                for d in x[2]:
                    if T.is_node(d[2]):
                        s = this_elems(d[2], m)
                        if s:
                            m[d[0]] = m.get(d[0], set()) | s
            elif x[0] == "RangeFor":
                s = this_elems(x[3], m)
                if s:
                    m[x[2][0]] = m.get(x[2][0], set()) | s
            elif x[0] == "Bin" and x[2] == "=":
                l = T.strip_casts(x[3])
                if T.is_node(l) and l[0] == "Ref" and l[2] == "local":
                    s = this_elems(x[4], m)
                    if s:
                        m[l[3]] = m.get(l[3], set()) | s
    return m


# ------------------------------------------------------------------------------------------ writer (dump_raw)

def flatten_stream(n, out):
    """flatten an operator<< chain into items (left to right); returns True if n is a stream chain"""
    n = T.strip_casts(n)
    if T.is_node(n) and n[0] == "Call" and T.callee_name(n) == "operator<<" and len(n[4]) == 2:
        flatten_stream(n[4][0], out)
        out.append(n[4][1])
        return True
    if T.is_node(n) and n[0] == "Call" and T.callee_name(n) == "operator<<" and T.is_node(n[3]) and len(n[4]) == 1:
        flatten_stream(n[3], out)
        out.append(n[4][0])
        return True
    return False


def ordered_statements(body):
    """expression statements of a function body in textual order, with the list of enclosing If conditions and loops"""
    out = []

    def rec(s, guards, loops):
        if not T.is_node(s):
            return
        k = s[0]
        if k == "Compound":
            for c in s[2]:
                rec(c, guards, loops)
        elif k == "If":
            if T.is_node(s[5]):
                rec(s[5], guards, loops)
            rec(s[3], guards + [(s[2], True)], loops)
            if T.is_node(s[4]):
                rec(s[4], guards + [(s[2], False)], loops)
        elif k in ("For", "While", "RangeFor", "Do"):
            body_ = {"For": 5, "While": 3, "RangeFor": 4, "Do": 2}[k]
            if k == "For" and T.is_node(s[2]):
                rec(s[2], guards, loops)
            rec(s[body_], guards, loops + [s])
        elif k in ("Switch",):
            rec(s[3], guards, loops)
        elif k == "Case":
            rec(s[4], guards, loops)
        elif k == "Default":
            rec(s[2], guards, loops)
        elif k == "Label":
            rec(s[3], guards, loops)
        elif k == "Try":
            rec(s[2], guards, loops)
        elif k == "OtherStmt":
            for c in s[3]:
                rec(c, guards, loops)
        else:
            out.append((s, list(guards), list(loops)))
    rec(body, [], [])
    return out


def getter_elems(P, n, lm):
    """this-elements read by const project methods invoked on `this` inside n (one level): `this->Get_countTemps()`"""
    out = set()
    if P is None or not T.is_node(n):
        return out
    for c in T.calls(n):
        cd = c[2]
        if isinstance(cd, dict) and cd.get("proj") and cd.get("k") in ("method", "virtual") and T.is_node(c[3]):
            o = T.strip_casts(c[3])
            if o[0] == "This":
                for k in P.by_q.get(cd.get("q", ""), []):
                    g = P.functions[k]
                    if g["id"] == cd.get("id"):
                        out |= this_elems(g["body"], None)
    return out


def update_locals(s, lm):
    """streaming update of the local -> this-elements map at statement s (declarations and plain assignments)"""
    if not T.is_node(s):
        return
    if s[0] == "Decl":
        for d in s[2]:
            lm[d[0]] = this_elems(d[2], lm) if T.is_node(d[2]) else set()
        return
    for x in T.walk(s):
        if x[0] == "Bin" and x[2] == "=":
            l = T.strip_casts(x[3])
            if T.is_node(l) and l[0] == "Ref" and l[2] == "local":
                lm[l[3]] = this_elems(x[4], lm)
        elif x[0] == "Call" and T.callee_name(x) == "operator=" and len(x[4]) == 2:
            l = T.strip_casts(x[4][0])
            if T.is_node(l) and l[0] == "Ref" and l[2] == "local":
                lm[l[3]] = this_elems(x[4][1], lm)


def writer_model(fn, P=None):
    """segments of a dump_raw body: list of dict(word, line, elems (direct references), getter (elements read by const
    getters on this), nested (dumped through a nested dump_raw), guards, loops, literal)"""
    lm = {}
    segs = []
    header = {"word": None, "line": fn["line"], "elems": set(), "getter": set(), "nested": set(), "guards": [], "loops": [], "keyword": None}
    cur = header
    seen_loops = set()
    for s, guards, loops in ordered_statements(fn["body"]):
        for lp in loops:
            if id(lp) not in seen_loops:
                seen_loops.add(id(lp))
                if lp[0] == "RangeFor":
                    lm[lp[2][0]] = this_elems(lp[3], lm)
                elif lp[0] == "For" and T.is_node(lp[2]):
                    update_locals(lp[2], lm)
        update_locals(s, lm)
        items = []
        if flatten_stream(s, items):
            for it in items:
                it2 = T.strip_casts(it)
                if T.is_node(it2) and it2[0] == "Lit" and it2[2] == "str":
                    m = OPT_RE.match(it2[3])
                    if m:
                        cur = {"word": m.group(1), "line": it2[1], "elems": set(), "getter": set(), "nested": set(), "guards": guards,
                               "loops": loops, "literal": it2[3]}
                        segs.append(cur)
                    elif cur is header and re.match(r"^\s*[A-Z][A-Z_]+_RAW\b", it2[3]):
                        header["keyword"] = it2[3].split()[0]
                    continue
                cur["elems"] |= this_elems(it, lm)
                cur["getter"] |= getter_elems(P, it, lm)
        else:
            for x in T.walk(s):
                if x[0] == "Call" and T.callee_name(x) == "dump_raw" and T.is_node(x[3]):
                    e = this_elems(x[3], lm)
                    cur["elems"] |= e
                    cur["nested"] |= e
    return header, segs


# ------------------------------------------------------------------------------------------ reader (read_raw)

def find_option_switch(fn):
    """the Switch statement whose controlling variable receives parser.get_option(vopts, ...)"""
    opt_vars = set()
    for x in T.walk(fn["body"]):
        src = None
        if x[0] == "Bin" and x[2] == "=":
            l = T.strip_casts(x[3])
            if T.is_node(l) and l[0] == "Ref" and l[2] == "local":
                src, name = x[4], l[3]
        elif x[0] == "Decl":
            for d in x[2]:
                if T.is_node(d[2]):
                    for c in T.calls(d[2]):
                        if T.callee_name(c) in ("get_option", "getOptionFromLastLine"):
                            opt_vars.add(d[0])
        if src is not None:
            for c in T.calls(src):
                if T.callee_name(c) in ("get_option", "getOptionFromLastLine"):
                    opt_vars.add(name)
    for x in T.walk(fn["body"]):
        if x[0] == "Switch":
            c = T.strip_casts(x[2])
            if T.is_node(c) and c[0] == "Ref" and c[3] in opt_vars:
                return x
    return None


def switch_groups(sw):
    """[(labels [int|'default'|None], statements [nodes])] of a switch body, following fall-through:
    a group that does not end in break/return/continue/goto continues into the next one"""
    body = sw[3]
    stmts = body[2] if T.is_node(body) and body[0] == "Compound" else [body]
    groups = []
    cur = None

    def open_case(s):
        labels = []
        while T.is_node(s) and s[0] in ("Case", "Default"):
            if s[0] == "Case":
                labels.append(s[3] if s[3] is not None else T.lit_value(s[2]))
                s = s[4]
            else:
                labels.append("default")
                s = s[2]
        return labels, s
    for s in stmts:
        if T.is_node(s) and s[0] in ("Case", "Default"):
            labels, first = open_case(s)
            cur = {"labels": labels, "stmts": [], "line": s[1], "closed": False}
            groups.append(cur)
            if T.is_node(first):
                cur["stmts"].append(first)
                if first[0] in ("Break", "Return", "Continue", "Goto"):
                    cur["closed"] = True
        elif cur is not None and T.is_node(s):
            if not cur["closed"]:
                cur["stmts"].append(s)
                if s[0] in ("Break", "Return", "Continue", "Goto"):
                    cur["closed"] = True
    # fall-through
    out = []
    for i, g in enumerate(groups):
        stm = list(g["stmts"])
        j = i
        while not groups[j]["closed"] and j + 1 < len(groups):
            j += 1
            stm += groups[j]["stmts"]
        out.append((g["labels"], stm, g["line"]))
    return out


def local_flows(body, exclude=None):
    """local name -> this-elements that receive a value computed from the local inside `body` (not descending into
    the subtree `exclude`): `this->steps = temp_steps;`, `this->isotopes[name] = iso;`, `this->v.push_back(tmp)`"""
    flow = {}

    def walk_ex(n):
        stack = [n]
        while stack:
            x = stack.pop()
            if not T.is_node(x) or x is exclude:
                continue
            yield x
            stack.extend(reversed(list(T.children(x))))
    for x in walk_ex(body):
        tgt, srcs = None, []
        if x[0] == "Bin" and x[2] in T.ASSIGN_OPS:
            tgt, srcs = target_elem(x[3]), [x[4], x[3]]
        elif x[0] == "Call" and isinstance(x[2], dict):
            nm = T.callee_name(x)
            if nm in ("push_back", "insert", "assign", "swap", "operator=", "emplace_back", "add", "add_extensive", "merge_redox") and (T.is_node(x[3]) or x[4]):
                obj = x[3] if T.is_node(x[3]) else x[4][0]
                tgt, srcs = target_elem(obj), list(x[4]) + [obj]
        if tgt is None:
            continue
        for sx in srcs:
            for y in T.walk(sx):
                if y[0] == "Ref" and y[2] == "local":
                    flow.setdefault(y[3], set()).add(tgt)
    return flow


def _is_constant(n):
    n = T.strip_casts(n)
    if not T.is_node(n):
        return False
    if n[0] == "Lit":
        return True
    if n[0] == "Ref" and n[2] == "enum":
        return True
    if n[0] == "Un" and n[2] in ("-", "+", "!"):
        return _is_constant(n[3])
    return False


def written_elems(P, stmts, cls, depth=0, flow=None, value_only=False):
    """this-elements written by a list of statements: assignments, >> extraction, mutating std methods, nested
    read_raw / Deserialize on a member, project setters on this (one level), locals flowing into members"""
    out = set()
    inner = {}
    if flow is not None:
        for s in stmts:
            if T.is_node(s):
                for k_, v_ in local_flows(s).items():
                    inner.setdefault(k_, set()).update(v_)
    for s in stmts:
        if not T.is_node(s):
            continue
        for tgt, how, line, node in T.writes(s):
            if value_only and how == "=" and node[0] == "Bin" and _is_constant(node[4]):
                continue      # `this->x = 0;` in an error branch is a default, not the stored value
            e = target_elem(tgt)
            if e is not None:
                out.add(e)
            elif flow is not None:
                root, steps = T.access_path(tgt)
                if root[0] == "local":
                    if root[1] in inner:
                        out |= inner[root[1]]
                    elif root[1] in flow:
                        out |= flow[root[1]]
        for c in T.calls(s):
            cd = c[2]
            if not isinstance(cd, dict) or not cd.get("proj"):
                continue
            obj = c[3]
            if cd.get("k") in ("method", "virtual") and T.is_node(obj):
                o2 = T.strip_casts(obj)
                if o2[0] == "This" and depth < 2 and not cd.get("const"):
                    for k in P.by_q.get(cd.get("q", ""), []):
                        g = P.functions[k]
                        if g["id"] == cd.get("id"):
                            out |= written_elems(P, [g["body"]], cls, depth + 1, value_only=value_only)
    return out


def reader_model(P, fn):
    sw = find_option_switch(fn)
    if sw is None:
        return None
    groups = switch_groups(sw)
    cls = fn.get("cls", "")
    model = {}
    flow = local_flows(fn["body"], exclude=sw)
    for labels, stmts, line in groups:
        w = written_elems(P, stmts, cls, flow=flow)
        wv = written_elems(P, stmts, cls, flow=flow, value_only=True)
        reads_member = set()
        for s in stmts:
            for c in T.calls(s):
                if T.callee_name(c) in ("read_raw",) and T.is_node(c[3]):
                    e = target_elem(c[3])
                    if e:
                        reads_member.add(e)
        for lb in labels:
            model[lb] = {"line": line, "writes": w, "stores": wv or w, "stmts": stmts, "labels": labels}
    return {"switch": sw, "cases": model}


# ------------------------------------------------------------------------------------------ option resolution

def resolve_option(word, table):
    """CParser::find_option(word, &n, table, exact=false): exact match first, otherwise the first entry that begins
    with the word (semantics verified against the source by find_option_shape)"""
    w = word.lower()
    for i, t in enumerate(table):
        if t == w:
            return i
    for i, t in enumerate(table):
        if t.startswith(w):
            return i
    return None


def find_option_shape(P):
    """Verify that CParser::find_option still has the matching semantics encoded in resolve_option:
       loop 1: list[i].compare(token) == 0 -> *n = i; return FT_OK      (exact match first, any `exact` flag)
       loop 2: exact ? compare == 0 : find(token) == 0 -> *n = i; return FT_OK   (first prefix match)
       token is lower-cased first.  Returns (ok, description)."""
    fs = [f for f in P.fns_named("CParser::find_option")]
    if len(fs) != 1:
        return False, "CParser::find_option: %d definitions" % len(fs)
    f = fs[0]
    loops = [s for s in (f["body"][2] if f["body"][0] == "Compound" else []) if T.is_node(s) and s[0] == "For"]

    def loop_kind(lp):
        kinds = set()
        for x in T.walk(lp):
            if x[0] == "If":
                c = T.strip_casts(x[2])
                if c[0] == "Bin" and c[2] == "==" and T.lit_value(c[4]) == 0:
                    l = T.strip_casts(c[3])
                    if l[0] == "Call" and T.callee_name(l) in ("compare", "find"):
                        guard = None
                        kinds.add(T.callee_name(l))
        return kinds
    lower = any(T.callee_name(c) == "transform" for c in T.calls(f["body"])) and \
        any(x[0] == "Ref" and x[3] == "tolower" for x in T.walk(f["body"]))
    if not lower:
        return False, "find_option no longer lower-cases the token"
    if len(loops) == 2 and loop_kind(loops[0]) == {"compare"} and loop_kind(loops[1]) == {"compare", "find"}:
        return True, "exact-match pass, then first-prefix pass (lower-cased token)"
    if len(loops) == 1 and loop_kind(loops[0]) == {"compare", "find"}:
        return "prefix-only", "single pass: first entry that begins with the token (table order significant)"
    return False, "find_option has an unrecognised shape (%d loops)" % len(loops)


def resolve_option_prefix_only(word, table):
    w = word.lower()
    for i, t in enumerate(table):
        if t.startswith(w):
            return i
    return None


# ------------------------------------------------------------------------------------------ vopts tables

def vopts_tables(P):
    """class qualified name -> list of option words, from `const std::vector<std::string> K::vopts(temp_vopts, ...)`"""
    arrays = {}
    for g in P.globals:
        if g["name"].startswith("temp_vopts") and T.is_node(g.get("init")):
            words = []
            ini = g["init"]
            if ini[0] == "InitList":
                for e in ini[2]:
                    lit = None
                    for x in T.walk(e):
                        if x[0] == "Lit" and x[2] == "str":
                            lit = x[3]
                            break
                    words.append(lit)
            arrays[(g["file"], g["q"])] = words
    out = {}
    for g in P.globals:
        if g["name"] == "vopts" and g["kind"] == "staticmember":
            cls = g["q"].rsplit("::", 1)[0]
            ini = g.get("init")
            words = None
            if T.is_node(ini):
                for x in T.walk(ini):
                    if x[0] == "Ref" and x[2] == "global" and (g["file"], x[3]) in arrays:
                        words = arrays[(g["file"], x[3])]
                        break
                if words is None:
                    # default constructed: empty table
                    if ini[0] == "Construct" and not ini[3]:
                        words = []
            elif ini is None:
                words = []
            out[cls] = {"words": words, "file": g["file"], "line": g["line"]}
    return out


# ------------------------------------------------------------------------------------------ binary stream (Serialize / Deserialize)

def _is_param(n, names):
    n = T.strip_casts(n)
    return T.is_node(n) and n[0] == "Ref" and n[2] == "param" and n[3] in names


def serialize_model(fn):
    """tokens of a Serialize body in order: dict(chan 'I'|'D'|'N', elems, depth, cond, line)"""
    pn = fn["pnames"]
    ints_p = [p for p, t in zip(pn, fn["params"]) if "vector<int>" in t.replace(" ", "")]
    dbl_p = [p for p, t in zip(pn, fn["params"]) if "vector<double>" in t.replace(" ", "")]
    lm = {}
    toks = []
    seen_loops = set()
    for s, guards, loops in ordered_statements(fn["body"]):
        for lp in loops:
            if id(lp) not in seen_loops:
                seen_loops.add(id(lp))
                if lp[0] == "RangeFor":
                    lm[lp[2][0]] = this_elems(lp[3], lm)
                elif lp[0] == "For" and T.is_node(lp[2]):
                    update_locals(lp[2], lm)
        update_locals(s, lm)
        for ev, cond in T.ordered_events(s, lambda n: n[0] == "Call"):
            nm = T.callee_name(ev)
            if nm == "push_back" and T.is_node(ev[3]) and ev[4]:
                if _is_param(ev[3], ints_p):
                    toks.append({"chan": "I", "elems": this_elems(ev[4][0], lm), "depth": len(loops), "cond": bool(guards) or cond, "line": ev[1]})
                elif _is_param(ev[3], dbl_p):
                    toks.append({"chan": "D", "elems": this_elems(ev[4][0], lm), "depth": len(loops), "cond": bool(guards) or cond, "line": ev[1]})
            elif nm == "Serialize" and T.is_node(ev[3]):
                toks.append({"chan": "N", "elems": this_elems(ev[3], lm), "depth": len(loops), "cond": bool(guards) or cond, "line": ev[1],
                             "cls": ev[2].get("cls") if isinstance(ev[2], dict) else None})
    return toks


def deserialize_model(fn):
    pn = fn["pnames"]
    ints_p = [p for p, t in zip(pn, fn["params"]) if "vector<int>" in t.replace(" ", "")]
    dbl_p = [p for p, t in zip(pn, fn["params"]) if "vector<double>" in t.replace(" ", "")]
    flow = local_flows(fn["body"])
    # a local used as a loop bound describes the container(s) the loop fills
    for x in T.walk(fn["body"]):
        if x[0] == "For" and T.is_node(x[3]):
            w = set()
            for tgt, how, line, node in T.writes(x[5]):
                e = target_elem(tgt)
                if e is not None:
                    w.add(e)
            for y in T.walk(x[3]):
                if y[0] == "Ref" and y[2] == "local":
                    flow.setdefault(y[3], set()).update(w)
    toks = []

    def consumption(n):
        if n[0] == "Call" and T.callee_name(n) == "operator[]" and len(n[4]) == 2:
            idx = T.strip_casts(n[4][1])
            if T.is_node(idx) and idx[0] == "Un" and idx[2] in ("post++", "++"):
                if _is_param(n[4][0], ints_p):
                    return "I"
                if _is_param(n[4][0], dbl_p):
                    return "D"
        if n[0] == "Call" and T.callee_name(n) == "Deserialize" and T.is_node(n[3]):
            return "N"
        return None

    for s, guards, loops in ordered_statements(fn["body"]):
        evs = T.ordered_events(s, lambda n: consumption(n) is not None)
        if not evs:
            continue
        # targets of the statement
        tg = set()
        if s[0] == "Decl":
            for d in s[2]:
                tg |= flow.get(d[0], set())
        for tgt, how, line, node in T.writes(s):
            e = target_elem(tgt)
            if e is not None:
                tg.add(e)
            else:
                root, steps = T.access_path(tgt)
                if root[0] == "local":
                    tg |= flow.get(root[1], set())
        for ev, cond in evs:
            ch = consumption(ev)
            el = set(tg)
            if ch == "N":
                e = target_elem(ev[3])
                if e is not None:
                    el = {e}
                else:
                    root, steps = T.access_path(ev[3])
                    el = set(flow.get(root[1], set())) if root[0] == "local" else set()
            toks.append({"chan": ch, "elems": el, "depth": len(loops), "cond": bool(guards) or cond, "line": ev[1]})
    return toks


def elems_compatible(a, b):
    """do two element sets name a common storage location?  (f, None) matches any index of f"""
    for fa, ia in a:
        for fb, ib in b:
            if fa == fb and (ia is None or ib is None or ia == ib):
                return True
    return False
