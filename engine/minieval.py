"""A tiny concrete interpreter for straight-line / loop fragments of the extracted trees (finite-domain evaluation):
integers, doubles, std::vector<double> members given as Python lists, locals.  Anything else raises Unsupported - the
caller reports the fragment as not evaluable (analysis broken), never as a pass."""
from . import tree as T


class Unsupported(Exception):
    pass


class _Break(Exception):
    pass


class _Continue(Exception):
    pass


class Returned(Exception):
    def __init__(self, value):
        self.value = value


class Env:
    def __init__(self, vectors=None, scalars=None, max_steps=10000, resolve=None):
        self.vec = dict(vectors or {})      # name (last component) -> list
        self.var = dict(scalars or {})      # name -> number
        self.resolve = resolve              # optional: node -> value or None (for members that share a last component)
        self.oncall = None                  # optional: call node -> number or list (vector-valued getter) or None
        self.steps = 0
        self.max_steps = max_steps


def _name(n):
    if n[0] == "Ref":
        return n[3]
    if n[0] == "Member":
        return n[2].split("::")[-1]
    return None


def ev(n, env):
    n = T.strip_casts(n)
    if not T.is_node(n):
        raise Unsupported(str(n))
    k = n[0]
    if k == "Paren":
        return ev(n[2], env)
    if k == "Lit":
        v = T.lit_value(n)
        if v is None and n[2] == "null":
            return 0
        if v is None and n[2] == "float":
            try:
                return float(str(n[3]).rstrip("fFlL"))
            except ValueError:
                pass
        if v is None:
            raise Unsupported("literal")
        return v
    if k in ("Ref", "Member"):
        if env.resolve is not None:
            v = env.resolve(n)
            if v is not None:
                return v
        nm = _name(n)
        if nm in env.var:
            return env.var[nm]
        raise Unsupported("unbound " + str(nm))
    if k == "Call":
        nm = T.callee_name(n)
        if env.oncall is not None:
            v = env.oncall(n)
            if v is not None and not isinstance(v, list):
                return v

        def vec_of(o):
            o = T.strip_casts(o)
            if T.is_node(o) and o[0] in ("Ref", "Member") and _name(o) in env.vec:
                return env.vec[_name(o)], _name(o)
            if T.is_node(o) and o[0] == "Call" and env.oncall is not None:
                v = env.oncall(o)
                if isinstance(v, list):
                    return v, T.callee_name(o)
            return None, None
        if nm in ("size", "back", "front") and T.call_obj(n) is not None:
            v, _ = vec_of(T.call_obj(n))
            if v is not None:
                if nm == "size":
                    return len(v)
                if not v:
                    raise IndexError(nm + " of empty vector")
                return v[-1] if nm == "back" else v[0]
        if nm == "operator[]" and n[4]:
            v, vn = vec_of(n[4][0])
            if v is not None:
                i = ev(n[4][1], env)
                if not (0 <= i < len(v)):
                    raise IndexError("%s[%d]" % (vn, i))
                return v[i]
        if nm in ("fmod", "floor", "ceil", "fabs", "trunc") and n[4]:
            import math
            a = [ev(x, env) for x in n[4]]
            return {"fmod": lambda: math.fmod(a[0], a[1]), "floor": lambda: float(math.floor(a[0])), "ceil": lambda: float(math.ceil(a[0])),
                    "fabs": lambda: abs(a[0]), "trunc": lambda: float(math.trunc(a[0]))}[nm]()
        raise Unsupported("call " + str(nm))
    if k == "Index":
        o = T.strip_casts(n[2])
        if T.is_node(o) and _name(o) in env.vec:
            i = ev(n[3], env)
            v = env.vec[_name(o)]
            if not (0 <= i < len(v)):
                raise IndexError("%s[%d]" % (_name(o), i))
            return v[i]
        raise Unsupported("index")
    if k == "Cond":
        return ev(n[3], env) if ev(n[2], env) else ev(n[4], env)
    if k == "Un":
        if n[2] == "-":
            return -ev(n[3], env)
        if n[2] == "!":
            return 0 if ev(n[3], env) else 1
        if n[2] in ("++", "--", "post++", "post--"):
            nm = _name(T.strip_casts(n[3]))
            old = ev(n[3], env)
            env.var[nm] = old + (1 if "++" in n[2] else -1)
            return old if n[2].startswith("post") else env.var[nm]
        raise Unsupported("unary " + n[2])
    if k == "Bin":
        op = n[2]
        if op == "=":
            nm = _name(T.strip_casts(n[3]))
            if nm is None:
                raise Unsupported("assignment target")
            env.var[nm] = ev(n[4], env)
            return env.var[nm]
        if op in ("+=", "-=", "*=", "/="):
            nm = _name(T.strip_casts(n[3]))
            a, b = ev(n[3], env), ev(n[4], env)
            env.var[nm] = a + b if op == "+=" else a - b if op == "-=" else a * b if op == "*=" else a / b
            return env.var[nm]
        if op == "&&":
            return 1 if (ev(n[3], env) and ev(n[4], env)) else 0
        if op == "||":
            return 1 if (ev(n[3], env) or ev(n[4], env)) else 0
        a, b = ev(n[3], env), ev(n[4], env)
        if op in ("<", "<=", ">", ">=", "==", "!="):
            return 1 if {"<": a < b, "<=": a <= b, ">": a > b, ">=": a >= b, "==": a == b, "!=": a != b}[op] else 0
        if op == "+":
            return a + b
        if op == "-":
            return a - b
        if op == "*":
            return a * b
        if op == "/":
            return (a // b) if isinstance(a, int) and isinstance(b, int) else a / b
        if op in ("&", "|", "^", "%"):
            # integer operators: the operands have been converted to an integer type by a cast (stripped here): truncate as C does
            ia, ib = int(a), int(b)
            return ia & ib if op == "&" else ia | ib if op == "|" else ia ^ ib if op == "^" else (abs(ia) % abs(ib)) * (1 if ia >= 0 else -1)
        raise Unsupported("binary " + op)
    raise Unsupported(k)


def run(s, env):
    """execute statement s"""
    if not T.is_node(s):
        return
    env.steps += 1
    if env.steps > env.max_steps:
        raise Unsupported("step budget")
    k = s[0]
    if k == "Compound":
        for c in s[2]:
            run(c, env)
    elif k == "If":
        if ev(s[2], env):
            run(s[3], env)
        elif T.is_node(s[4]):
            run(s[4], env)
    elif k == "For":
        if T.is_node(s[2]):
            run(s[2], env)
        while (not T.is_node(s[3])) or ev(s[3], env):
            try:
                run(s[5], env)
            except _Break:
                break
            except _Continue:
                pass
            if T.is_node(s[4]):
                ev(s[4], env)
            env.steps += 1
            if env.steps > env.max_steps:
                raise Unsupported("step budget")
    elif k == "While":
        while ev(s[2], env):
            try:
                run(s[3], env)
            except _Break:
                break
            except _Continue:
                pass
            env.steps += 1
            if env.steps > env.max_steps:
                raise Unsupported("step budget")
    elif k == "Return":
        raise Returned(ev(s[2], env) if len(s) > 2 and T.is_node(s[2]) else None)
    elif k == "Break":
        raise _Break()
    elif k == "Continue":
        raise _Continue()
    elif k in ("Bin", "Un", "Call"):
        ev(s, env)
    elif k == "Decl":
        for d in s[2]:
            if d[2] is not None:
                env.var[d[0]] = ev(d[2], env)
    else:
        raise Unsupported("statement " + k)
