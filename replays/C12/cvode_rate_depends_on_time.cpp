// Replay (pre-fix, see known_findings.json): -cvode with a rate that depends on TOTAL_TIME.  The CVODE right-hand side Phreeqc::f ignores
// its time argument t and evaluates the rates at cvode_rate_sim_time, which CVode only advances after a completed internal step: every
// evaluation inside a step sees the time of the previous step end.  rate = 1e-8 * TOTAL_TIME, m0 = 1: m(T) = 1 - 1e-8 T^2 / 2 (the
// Runge-Kutta integrator gives exactly that); cvode reacted 1.17e-4 mol instead of 5.0e-3 at T = 1000 s, with no warning.
// cwd = /repo/database.  exit 1 when cvode differs from the closed form by more than 100 tol at any of the four times.
#include "IPhreeqc.hpp"
#include <cstdio>
#include <cmath>
static double val(IPhreeqc& p, int r, int c){ VAR v; VarInit(&v); p.GetSelectedOutputValue(r,c,&v); double d = v.type==TT_DOUBLE? v.dVal : NAN; VarClear(&v); return d; }
int main(){
  IPhreeqc p; if (p.LoadDatabase("phreeqc.dat")) return 2;
  const char* in =
   "RATES\nR\n-start\n10 rate = parm(1) * TOTAL_TIME\n20 SAVE rate * TIME\n-end\n"
   "SOLUTION 1\n Na 1\n Cl 1\n"
   "KINETICS 1\nR\n -formula NaCl 1\n -m0 1\n -parms 1e-8\n -tol 1e-10\n-steps 250 500 750 1000\n-cvode true\nINCREMENTAL_REACTIONS false\n"
   "SELECTED_OUTPUT\n -reset false\n -high_precision true\n -time true\n -kinetic_reactants R\nEND\n";
  if (p.RunString(in)) { printf("%s\n", p.GetErrorString()); return 2; }
  int bad = 0;
  for (int r = 1; r < p.GetSelectedOutputRowCount(); r++) {
    double t = val(p, r, 0), m = val(p, r, 1);
    if (!(t > 0)) continue;
    double e = 1.0 - 1e-8 * t * t / 2.0;
    printf("t = %6g  m = %.12f  closed form %.12f  diff %.2e\n", t, m, e, fabs(m - e));
    if (fabs(m - e) > 1e-8) bad++;
  }
  if (bad) { printf("FAIL: cvode integrates a different function of time\n"); return 1; }
  printf("OK\n"); return 0;
}
