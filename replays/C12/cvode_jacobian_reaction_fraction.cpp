// Replay (pre-fix, see known_findings.json): -cvode with a REACTION in the same step.  Phreeqc::Jac computes the base rates with
// REACTION fraction 0.0 (the whole REACTION amount was applied before the integration started) but the perturbed states with
// cvode_step_fraction: each Jacobian column becomes (rate(state + del + fraction x REACTION) - rate(state)) / del with del = 1e-13 -
// garbage of order 1e9 whenever the Jacobian is re-evaluated after the first internal step.  With -cvode_order 2 -cvode_steps 200 the
// integration then runs without error control: R1 = 1.6765e-04 instead of the closed form 1.35335e-04 (tol 1e-10), no warning.
// cwd = /repo/database.  exit 1 when cvode and the closed form differ by more than 100 tol.
#include "IPhreeqc.hpp"
#include <cstdio>
#include <cmath>
static double val(IPhreeqc& p, int r, int c){ VAR v; VarInit(&v); p.GetSelectedOutputValue(r,c,&v); double d = v.type==TT_DOUBLE? v.dVal : NAN; VarClear(&v); return d; }
int main(){
  IPhreeqc p; if (p.LoadDatabase("phreeqc.dat")) return 2;
  const char* in =
   "RATES\nR1\n-start\n10 rate = parm(1) * TOT(\"Cl\") * M\n20 SAVE rate * TIME\n-end\nR0\n-start\n10 rate = parm(1) * TOT(\"Cl\")\n20 SAVE rate * TIME\n-end\n"
   "SOLUTION 1\n Na 1\n Cl 1\nREACTION 1\n NaCl 1\n 1 mmol in 1 steps\n"
   "KINETICS 1\nR1\n -formula KBr 1\n -m0 0.001\n -parms 1\n -tol 1e-10\nR0\n -formula LiBr 1\n -m0 0.001\n -parms 0.0001\n -tol 1e-10\n"
   "-steps 1000 in 1 steps\n-cvode true\n-cvode_order 2\n-cvode_steps 200\nINCREMENTAL_REACTIONS false\n"
   "SELECTED_OUTPUT\n -reset false\n -high_precision true\n -kinetic_reactants R1 R0\nEND\n";
  if (p.RunString(in)) { printf("%s\n", p.GetErrorString()); return 2; }
  int r = p.GetSelectedOutputRowCount() - 1;
  double r1 = val(p, r, 0), r0 = val(p, r, 2);
  double cl = 2e-3, e1 = 1e-3 * exp(-1.0 * cl * 1000.0), e0 = 1e-3 - 1e-4 * cl * 1000.0;
  printf("R1 = %.12e (closed form %.12e)   R0 = %.12e (closed form %.12e)\n", r1, e1, r0, e0);
  if (fabs(r1 - e1) > 1e-8 || fabs(r0 - e0) > 1e-8) { printf("FAIL: cvode differs from the closed form by %.2e / %.2e mol at tol 1e-10\n", fabs(r1 - e1), fabs(r0 - e0)); return 1; }
  printf("OK\n"); return 0;
}
