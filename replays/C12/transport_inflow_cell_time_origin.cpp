// Replay (pre-fix, see known_findings.json): TRANSPORT, 4 cells, pure advection, 2 shifts of 300 s, the same reactant in every cell with the rate
// `SAVE PARM(1)*TOTAL_TIME*TIME` (k = 1e-9, m0 = 1e-2): every cell must hold m0 - k t^2 / 2.  The inflow cell reacts for half a time
// step before the shift and half a step after it; both halves were integrated from the same time origin (rate_sim_time_start), i.e.
// twice over [0, 150] instead of [0, 150] and [150, 300]: cell 1 held 9.9775e-3 after the first shift (9.955e-3 expected), 9.865e-3
// after the second (9.82e-3), and was punched with -time 150 / 450.
// cwd = /repo/database.  exit 1 when cell 1 differs from cell 2 after the last shift.
#include "IPhreeqc.hpp"
#include <cmath>
#include <cstdio>
int main(){
  IPhreeqc p; p.LoadDatabase("phreeqc.dat");
  const char *in = "RATES\n T\n -start\n 10 SAVE PARM(1)*TOTAL_TIME*TIME\n -end\nSOLUTION 0-4\n Na 1\n Cl 1\nEND\nKINETICS 1-4\n T\n  -formula KCl 1\n  -m0 1e-2\n  -parms 1e-9\n  -tol 1e-10\n"
                   "SELECTED_OUTPUT\n -reset false\n -high_precision true\n -solution\n -time true\n -kinetic_reactants T\nEND\n"
                   "TRANSPORT\n -cells 4\n -shifts 2\n -time_step 300\n -lengths 1\n -dispersivities 0\n -diffusion_coefficient 0\nEND\n";
  if (p.RunString(in)) { printf("%s", p.GetErrorString()); return 2; }
  int rows = p.GetSelectedOutputRowCount(); double m[5] = {0}, t[5] = {0};
  for (int r = rows - 4; r < rows; r++) {
    VAR a; VarInit(&a); p.GetSelectedOutputValue(r, 0, &a); int cell = a.type == TT_DOUBLE ? (int) a.dVal : (int) a.lVal; VarClear(&a);
    p.GetSelectedOutputValue(r, 1, &a); t[cell] = a.dVal; VarClear(&a); p.GetSelectedOutputValue(r, 2, &a); m[cell] = a.dVal; VarClear(&a);
  }
  printf("after 2 shifts: cell 1  time %.0f  m %.6e   cell 2  time %.0f  m %.6e   exact 9.820000e-03\n", t[1], m[1], t[2], m[2]);
  return fabs(m[1] - m[2]) < 1e-9 && fabs(t[1] - t[2]) < 1e-9 ? 0 : 1;
}
