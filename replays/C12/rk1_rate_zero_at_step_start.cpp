// Replay (pre-fix, see known_findings.json): rate law `SAVE PARM(1)*TOTAL_TIME*TIME` (k = 1e-9), m0 = 1e-2, `-steps 3000 in 4 steps`, `-runge_kutta 1`.
// The exact solution is m0 - k t^2 / 2.  rk_kinetics, "Quit rk with rk = 1 and equal rates": when every rate is zero at the START of a
// step (TOTAL_TIME = 0 at the first step of the list) the step was accepted without evaluating the rate at its end, and - in
// cumulative mode every step starts at 0 - nothing reacted at all: m(3000) = 1e-2 instead of 5.5e-3.  -runge_kutta 2/3/6 and -cvode give
// the exact column.  cwd = /repo/database.  exit 1 when m(3000) is off by more than 1e-6.
#include "IPhreeqc.hpp"
#include <cmath>
#include <cstdio>
int main(){
  IPhreeqc p; p.LoadDatabase("phreeqc.dat");
  const char *in = "RATES\n T\n -start\n 10 SAVE PARM(1)*TOTAL_TIME*TIME\n -end\nSOLUTION 1\n Na 1\n Cl 1\nKINETICS 1\n T\n  -formula NaCl 1\n  -m0 1e-2\n  -parms 1e-9\n  -tol 1e-9\n"
                   " -steps 3000 in 4 steps\n -runge_kutta 1\nINCREMENTAL_REACTIONS false\nSELECTED_OUTPUT\n -reset false\n -high_precision true\n -kinetic_reactants T\nEND\n";
  if (p.RunString(in)) { printf("%s", p.GetErrorString()); return 2; }
  int last = p.GetSelectedOutputRowCount() - 1; VAR a; VarInit(&a); p.GetSelectedOutputValue(last, 0, &a);
  double m = a.type == TT_DOUBLE ? a.dVal : NAN; VarClear(&a);
  printf("m(3000) = %.12e   exact 5.5e-03\n", m);
  return fabs(m - 5.5e-3) < 1e-6 ? 0 : 1;
}
