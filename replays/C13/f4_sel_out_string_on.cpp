// Replay of finding F4 (C13/C09/C05): IPhreeqc::get_sel_out_string_on(int n) ignores n and consults the switch of the
// *current* selected-output user number.  Block 1 has its string switch ON, block 2 OFF; the current user number is
// left at 2 when the run starts -> block 1's string stays empty although enabled (and vice versa).
#include "IPhreeqc.hpp"
#include <cstdio>
#include <cstring>
int main(int argc, char **argv) {
  const char *db = argc > 1 ? argv[1] : "/repo/database/phreeqc.dat";
  IPhreeqc p;
  if (p.LoadDatabase(db)) return 2;
  p.SetCurrentSelectedOutputUserNumber(1);
  p.SetSelectedOutputStringOn(true);
  p.SetCurrentSelectedOutputUserNumber(2);
  p.SetSelectedOutputStringOn(false);
  const char *in =
      "SOLUTION 1\n Na 1\n Cl 1\n"
      "SELECTED_OUTPUT 1\n -reset false\n -pH true\n"
      "SELECTED_OUTPUT 2\n -reset false\n -pe true\nEND\n";
  if (p.RunString(in)) { std::printf("%s\n", p.GetErrorString()); return 2; }
  p.SetCurrentSelectedOutputUserNumber(1);
  const char *s1 = p.GetSelectedOutputString();
  int rows1 = p.GetSelectedOutputRowCount();
  p.SetCurrentSelectedOutputUserNumber(2);
  const char *s2 = p.GetSelectedOutputString();
  std::printf("block1: rows=%d string=[%s]\nblock2: string=[%s]\n", rows1, s1, s2);
  int bad = 0;
  if (std::strstr(s1, "pH") == 0) { std::printf("FAIL: string of block 1 (switch ON) is empty\n"); bad = 1; }
  if (std::strlen(s2) != 0) { std::printf("FAIL: string of block 2 (switch OFF) is not empty\n"); bad = 1; }
  if (!bad) std::printf("PASS\n");
  return bad;
}
