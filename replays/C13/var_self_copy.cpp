// Replay (pre-fix, see known_findings.json): VarCopy(&v, &v) - and with it CVar self-assignment (`a = a`, which std algorithms may perform) - cleared
// the destination before reading the source: the value was lost, a string VAR came back empty with VR_OK.
// exit 1 when a VAR copied onto itself no longer holds its value.
#include "Var.h"
#include "CVar.hxx"
#include <cstdio>
#include <cstring>
int main(){
  VAR v; VarInit(&v); v.type = TT_STRING; v.sVal = VarAllocString("calcite");
  VRESULT r = VarCopy(&v, &v);
  bool ok1 = v.type == TT_STRING && v.sVal && strcmp(v.sVal, "calcite") == 0;
  CVar a(3.5); CVar &b = a; a = b;
  bool ok2 = a.type == TT_DOUBLE && a.dVal == 3.5;
  printf("VarCopy(&v, &v) returned %d: type %d, value %s;  CVar a = a: type %d\n", (int) r, (int) v.type, v.type == TT_STRING && v.sVal ? v.sVal : "(lost)", (int) a.type);
  VarClear(&v);
  return ok1 && ok2 ? 0 : 1;
}
