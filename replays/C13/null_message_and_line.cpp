// Replay (pre-fix, see known_findings.json): null text arguments.
//   AddError(id, NULL): the null pointer was streamed into the error ostringstream, which sets badbit; CErrorReporter::Clear replaces the
//   stream only when tellp() != -1, and tellp() of a failed stream is -1 - the instance kept the error text of that moment for ever:
//   after a later successful run GetErrorString still showed the old lines, and AddError(id, "fresh") never appeared.
//   AccumulateLine(id, NULL): std::string::append(NULL), SIGSEGV.
// cwd = /repo/database.  exit 1 when the error string is not that of the last run / the added message is missing.
#include "IPhreeqc.h"
#include <cstdio>
#include <cstring>
int main(){
  int id = CreateIPhreeqc(); LoadDatabase(id, "phreeqc.dat");
  RunString(id, "KNOBS\n-bogus\nEND\n");
  int before = GetErrorStringLineCount(id);
  int r = AddError(id, NULL);
  RunString(id, "SOLUTION 1\nEND\n");
  int after_ok_run = GetErrorStringLineCount(id);
  AddError(id, "fresh\n");
  bool fresh = strstr(GetErrorString(id), "fresh") != NULL;
  int acc = AccumulateLine(id, NULL);
  printf("error lines after the failing run %d; AddError(NULL) returned %d; lines after a clean run %d (0 expected); added message %s; AccumulateLine(NULL) = %d (IPQ_INVALIDARG = %d)\n",
         before, r, after_ok_run, fresh ? "present" : "MISSING", acc, (int) IPQ_INVALIDARG);
  return after_ok_run == 0 && fresh && acc == IPQ_INVALIDARG ? 0 : 1;
}
