// Replay (pre-fix, see known_findings.json): IPhreeqc.hpp / IPhreeqc.h document the default selected-output file name of block n as
// selected_n.id.out; only block 1 got it (in the constructor), so on a fresh instance SetCurrentSelectedOutputUserNumber(2) followed by
// GetSelectedOutputFileName() returned "" (C, C++ and Fortran bindings alike) until a run had defined the block.  cwd: any.
// exit 1 when the name is not the documented default.
#include "IPhreeqc.hpp"
#include "IPhreeqc.h"
#include <cstdio>
#include <string>
int main(){
  IPhreeqc p; char want[64];
  p.SetCurrentSelectedOutputUserNumber(2);
  snprintf(want, sizeof want, "selected_2.%d.out", p.GetId());
  std::string got = p.GetSelectedOutputFileName();
  int id = CreateIPhreeqc(); char want2[64]; snprintf(want2, sizeof want2, "selected_7.%d.out", id);
  SetCurrentSelectedOutputUserNumber(id, 7); std::string got2 = GetSelectedOutputFileName(id);
  printf("C++: \"%s\" (documented default \"%s\")\nC  : \"%s\" (documented default \"%s\")\n", got.c_str(), want, got2.c_str(), want2);
  DestroyIPhreeqc(id);
  return (got == want && got2 == want2) ? 0 : 1;
}
