// Replay (pre-fix, see known_findings.json): volume and total_moles of a fixed-pressure gas phase were set only by print_gas_phase /
// punch_gas_phase; xgas_save stored what they held.  `REACTION CO2 2 mol; GAS_PHASE -fixed_pressure -pressure 20 -volume 1; SAVE gas_phase 1`
// saved `-volume 1 -total_moles 0` with output off and `-volume 2.5157 -total_moles 2.3314` with the output string on.
// cwd = /repo/database.  exit 1 when the two dumps differ.
#include "IPhreeqc.hpp"
#include <iostream>
#include <sstream>
#include <string>
int main(){
  const char *in = "SOLUTION 1\n temp 25\n pH 7\n Na 100\n Cl 100\nREACTION 1\n CO2 1\n 2 mol\nGAS_PHASE 1\n -fixed_pressure\n -pressure 20\n -volume 1\n CO2(g) 20\nSAVE gas_phase 1\nEND\n";
  std::string d[2];
  for (int on = 0; on < 2; on++) { IPhreeqc p; p.LoadDatabase("phreeqc.dat"); p.SetOutputStringOn(on != 0); p.SetDumpStringOn(true);
    if (p.RunString(in)) { std::cout << p.GetErrorString(); return 2; } p.RunString("DUMP\n-gas_phase 1\nEND\n"); d[on] = p.GetDumpString(); }
  std::istringstream a(d[0]), b(d[1]); std::string la, lb;
  while (std::getline(a, la) && std::getline(b, lb)) if (la != lb) std::cout << "output off: " << la << "   output on: " << lb << "\n";
  std::cout << (d[0] == d[1] ? "identical\n" : "saved gas phase depends on the output switch\n");
  return d[0] == d[1] ? 0 : 1;
}
