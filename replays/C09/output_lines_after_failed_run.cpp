// Replay (C09): after a Run* call that stops on an error the output and log strings are non-empty but their line views are
// empty (the line splitting at the end of do_run is skipped by the exception).  cwd = /repo/database.
#include <cstdio>
#include <cstring>
#include <string>
#include <sstream>
#include "IPhreeqc.hpp"
static int lines_of(const char* s) { int n = 0; std::istringstream is(s); std::string l; while (std::getline(is, l)) ++n; return n; }
int main()
{
	IPhreeqc h;
	h.LoadDatabase("phreeqc.dat");
	h.SetOutputStringOn(true);
	h.SetLogStringOn(true);
	int rc = h.RunString("SOLUTION 1\nNa 1\nEND\nSOLUTION 2\n-nosuchoption 3\nEND\n");
	int ns = lines_of(h.GetOutputString()), nl = h.GetOutputStringLineCount();
	printf("rc=%d  output string: %d lines, GetOutputStringLineCount() = %d\n", rc, ns, nl);
	int bad = 0;
	if (ns != nl) { printf("C09 VIOLATED: line view of the output stream disagrees with the string\n"); bad = 1; }
	else for (int i = 0; i < nl && !bad; ++i) ;
	std::string first = nl > 0 ? h.GetOutputStringLine(0) : "";
	printf("line 0 via accessor: \"%s\"\n", first.c_str());
	return bad;
}
