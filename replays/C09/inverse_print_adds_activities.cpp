// Replay (pre-fix, see known_findings.json): print_model (inverse modelling) read log activities with Get_master_activity()[name]; for an
// element the solution does not contain, operator[] inserted a zero entry into the solution stored in Rxn_solution_map.  After the shipped
// example ex16 a DUMP showed `Al 0` ... under -activities when output had been printed and no such entries with output off.
// cwd = /repo/database.  exit 1 when the dumps differ.
#include "IPhreeqc.hpp"
#include <fstream>
#include <sstream>
#include <iostream>
int main(){
  std::ifstream f("../phreeqc3-examples/ex16"); std::stringstream ss; ss<<f.rdbuf();
  std::string d[2];
  for(int on=0;on<2;on++){ IPhreeqc p; p.LoadDatabase("phreeqc.dat"); p.SetOutputStringOn(on!=0); p.SetDumpStringOn(true);
    p.RunString(ss.str().c_str()); p.RunString("DUMP\n-solution 1 2\nEND\n"); d[on]=p.GetDumpString(); }
  if(d[0]!=d[1]){ std::cout<<"stored solutions differ between output off and on:\n--- off\n"<<d[0]<<"--- on\n"<<d[1]; return 1; }
  std::cout<<"identical\n"; return 0;
}
