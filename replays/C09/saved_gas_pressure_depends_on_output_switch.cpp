// Replay (pre-fix, see known_findings.json): xgas_save stores phase::p_soln_x of every gas component; for a component that is not part of the
// model just solved (phase::in != TRUE) only print_gas_phase reset it - that is, only when output is printed.  Shipped example ex7, third
// simulation (fixed volume): N2(g) was saved with -p/-f 0.034773731857464 (left over from simulation 2) when output file and string are off
// and with 0 when the output string is on.  cwd = /repo/database.  exit 1 when the two dumps differ.
#include "IPhreeqc.hpp"
#include <fstream>
#include <sstream>
#include <iostream>
int main(){
  std::ifstream f("../phreeqc3-examples/ex7"); std::stringstream ss; ss<<f.rdbuf();
  std::string d[2];
  for(int on=0;on<2;on++){ IPhreeqc p; p.LoadDatabase("phreeqc.dat"); p.SetOutputStringOn(on!=0); p.SetDumpStringOn(true);
    p.RunString(ss.str().c_str()); p.RunString("DUMP\n-gas_phase 1\nEND\n"); d[on]=p.GetDumpString(); }
  if(d[0]!=d[1]){ std::cout<<"gas phase saved with output off:\n"<<d[0]<<"\nwith output on:\n"<<d[1]; return 1; }
  std::cout<<"identical\n"; return 0;
}
