// Replay (pre-fix, see known_findings.json): the density stored with a SAVEd solution is density_x, which was only brought up to date by calc_dens()
// inside print_totals: with the output sinks off a solution saved after `REACTION NaCl 2 mol` kept -density 0.99708 (that of the starting solution)
// while the same run with the output string on saved 1.07208.  cwd = /repo/database.  exit 1 when the two dumps differ.
#include "IPhreeqc.hpp"
#include <cstdio>
#include <cstring>
#include <string>
static std::string run(bool out){
  IPhreeqc p; p.LoadDatabase("phreeqc.dat"); p.SetOutputStringOn(out); p.SetDumpStringOn(true);
  p.RunString("SOLUTION 1\n Na 1\n Cl 1\nREACTION 1\n NaCl 1\n 2 mol\nSAVE solution 2\nEND\nDUMP\n -solution 2\nEND\n");
  std::string d=p.GetDumpString(); size_t i=d.find("-density"); return d.substr(i, d.find('\n',i)-i);
}
int main(){ std::string a=run(true), b=run(false); printf("output on : %s\noutput off: %s\n", a.c_str(), b.c_str()); return a!=b; }
