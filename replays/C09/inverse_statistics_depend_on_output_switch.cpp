// Replay (pre-fix, see known_findings.json): punch_model writes Sum_Delta/U (scaled_error) and MaxFracErr (max_pct), which print_model computes
// while printing; with the output sinks off (or PRINT -inverse false) print_model returned at once and the two selected-output columns were 0.
// Shipped example ex16: 0 / 0 with output off, 4.8209 / 3.2692e-02 with the output string on.  cwd = /repo/database.
// exit 1 when the selected-output strings differ.
#include "IPhreeqc.hpp"
#include <fstream>
#include <iostream>
#include <sstream>
#include <string>
int main(){
  std::ifstream f("../phreeqc3-examples/ex16"); std::stringstream ss; ss << f.rdbuf();
  std::string in = std::string("SELECTED_OUTPUT 1\n -reset false\n -inverse_modeling true\n") + ss.str(), d[2];
  for (int on = 0; on < 2; on++) { IPhreeqc p; p.LoadDatabase("phreeqc.dat"); p.SetOutputStringOn(on != 0); p.SetSelectedOutputStringOn(true);
    if (p.RunString(in.c_str())) { std::cout << p.GetErrorString(); return 2; } d[on] = p.GetSelectedOutputString(); }
  std::istringstream a(d[0]), b(d[1]); std::string la, lb; int n = 0;
  while (std::getline(a, la) && std::getline(b, lb)) if (la != lb && n++ < 2) std::cout << "output off: " << la.substr(0, 60) << "\noutput on : " << lb.substr(0, 60) << "\n";
  std::cout << (d[0] == d[1] ? "identical\n" : "selected output depends on the output switch\n");
  return d[0] == d[1] ? 0 : 1;
}
