// Replay (candidate F5): the error/warning string is read live from the reporter, but ErrorLines/WarningLines are
// rebuilt only by update_errors().  AccumulateLine() clears the reporters and AddError()/AddWarning() append to them
// without update_errors(): the string and its line view disagree.  exit 1 = disagreement observed.
#include <cstdio>
#include <cstring>
#include <string>
#include "IPhreeqc.hpp"
static int count_lines(const char *s) { int n = 0; for (const char *p = s; *p; ++p) if (*p == '\n') ++n; return n; }
int main() {
  IPhreeqc a;
  if (a.LoadDatabase("phreeqc.dat")) return 2;
  int bad = 0;
  a.RunString("SOLUTION 1\n -nosuchoption 1\nEND\n");                   // produces ERROR lines
  int n_str = count_lines(a.GetErrorString()), n_lines = a.GetErrorStringLineCount();
  printf("after failed run      : string has %d lines, line view has %d\n", n_str, n_lines);
  if (n_str != n_lines) bad++;
  a.AccumulateLine("TITLE next");                                       // clears the reporters
  n_str = count_lines(a.GetErrorString()); n_lines = a.GetErrorStringLineCount();
  printf("after AccumulateLine  : string has %d lines, line view has %d%s\n", n_str, n_lines, n_str != n_lines ? "  <-- MISMATCH" : "");
  if (n_str != n_lines) bad++;
  IPhreeqc b; b.LoadDatabase("phreeqc.dat");
  b.AddError("my error\n");
  n_str = count_lines(b.GetErrorString()); n_lines = b.GetErrorStringLineCount();
  printf("after AddError        : string has %d lines, line view has %d%s\n", n_str, n_lines, n_str != n_lines ? "  <-- MISMATCH" : "");
  if (n_str != n_lines) bad++;
  b.AddWarning("my warning\n");
  n_str = count_lines(b.GetWarningString()); n_lines = b.GetWarningStringLineCount();
  printf("after AddWarning      : string has %d lines, line view has %d%s\n", n_str, n_lines, n_str != n_lines ? "  <-- MISMATCH" : "");
  if (n_str != n_lines) bad++;
  IPhreeqc c;
  c.LoadDatabase("nosuchfile.dat");                                     // error recorded by load_db
  n_str = count_lines(c.GetErrorString()); n_lines = c.GetErrorStringLineCount();
  printf("after failed LoadDatabase: string has %d lines, line view has %d%s\n", n_str, n_lines, n_str != n_lines ? "  <-- MISMATCH" : "");
  if (n_str != n_lines) bad++;
  IPhreeqc d; d.LoadDatabase("phreeqc.dat");
  d.RunString("SOLUTION 1\nSELECTED_OUTPUT\n -totals Na\nEND\n");
  d.AddError("user error\n");
  VAR v; VarInit(&v);
  d.GetSelectedOutputValue(0, 0, &v);                                   // succeeds; clears the error reporter
  n_str = count_lines(d.GetErrorString()); n_lines = d.GetErrorStringLineCount();
  printf("after AddError + successful GetSelectedOutputValue: string has %d lines, line view has %d%s\n", n_str, n_lines, n_str != n_lines ? "  <-- MISMATCH" : "");
  if (n_str != n_lines) bad++;
  printf(bad ? "RESULT: FAIL\n" : "RESULT: PASS\n");
  return bad ? 1 : 0;
}
