// Replay (candidate F7): the dump FILE is produced by Phreeqc::dump_entities, which requires dump_info.Get_on() && pr.dump,
// while the dump STRING branch of IPhreeqc::do_run only requires Get_bool_any().  With `PRINT; -dump false` and both sinks
// enabled, the file receives nothing and the string receives the dump.  exit 1 = file and string differ.
#include <cstdio>
#include <fstream>
#include <sstream>
#include <string>
#include "IPhreeqc.hpp"
static std::string slurp(const char *fn) { std::ifstream f(fn); std::stringstream s; s << f.rdbuf(); return s.str(); }
int main() {
  IPhreeqc a;
  if (a.LoadDatabase("phreeqc.dat")) return 2;
  remove("/tmp/c09_dump.out");
  a.SetDumpFileOn(true); a.SetDumpStringOn(true); a.SetDumpFileName("/tmp/c09_dump.out");
  if (a.RunString("SOLUTION 1\n Na 1\nPRINT\n -dump false\nDUMP\n -file /tmp/c09_dump.out\n -solution 1\nEND\n")) { printf("%s\n", a.GetErrorString()); return 2; }
  std::string s = a.GetDumpString(), f = slurp("/tmp/c09_dump.out");
  printf("dump string %zu bytes, dump file %zu bytes\n", s.size(), f.size());
  remove("/tmp/c09_dump.out");
  int bad = (s != f);
  printf(bad ? "RESULT: FAIL (file and string views of the dump differ)\n" : "RESULT: PASS\n");
  return bad;
}
