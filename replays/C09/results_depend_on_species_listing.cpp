// Replay (pre-fix, see known_findings.json): print_all sorted species_list for the species / exchange / surface listings and left it sorted;
// sum_species adds the species into the element totals in the order of that list, so all later steps rounded differently when something was
// printed.  Shipped example ex6: the final state (DUMP -all) and selected-output values (10th digit) differed between output string off and on.
// cwd = /repo/database.  exit 1 when the dumps differ.
#include "IPhreeqc.hpp"
#include <fstream>
#include <sstream>
#include <iostream>
int main(int argc, char **argv){
  std::ifstream f(argc > 1 ? argv[1] : "../phreeqc3-examples/ex6"); std::stringstream ss; ss<<f.rdbuf();
  std::string d[2], so[2];
  for(int on=0;on<2;on++){ IPhreeqc p; p.LoadDatabase("phreeqc.dat"); p.SetOutputStringOn(on!=0); p.SetDumpStringOn(true); p.SetSelectedOutputStringOn(true);
    p.RunString(ss.str().c_str()); so[on]=p.GetSelectedOutputString(); p.RunString("DUMP\n-all\nEND\n"); d[on]=p.GetDumpString(); }
  int rc=0;
  if(so[0]!=so[1]){ std::cout<<"selected output differs between output off and on\n"; rc=1; }
  if(d[0]!=d[1]){ std::cout<<"final state (DUMP -all) differs between output off and on\n"; rc=1; }
  if(!rc) std::cout<<"identical\n";
  return rc;
}
