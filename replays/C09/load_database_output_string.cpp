// Replay (pre-fix, see known_findings.json): LoadDatabase / LoadDatabaseString run a hidden test input (`SOLUTION n; DELETE; -solution n`).  For that
// run the FILE sinks of the output, log and error streams were switched off and restored, the STRING sinks were not: with both sinks of
// the output stream enabled, the load wrote no output file but left 74 lines of the hidden run in GetOutputString.
// cwd = /repo/database.  exit 1 when the output string after a load is not empty while the output file was not written.
#include "IPhreeqc.hpp"
#include <cstdio>
#include <fstream>
int main(){
  IPhreeqc p; p.SetOutputStringOn(true); p.SetOutputFileOn(true); p.SetOutputFileName("/tmp/verif_loaddb_probe.out");
  std::remove("/tmp/verif_loaddb_probe.out");
  if (p.LoadDatabase("phreeqc.dat")) { printf("%s", p.GetErrorString()); return 2; }
  std::ifstream f("/tmp/verif_loaddb_probe.out"); bool file = f.good(); f.close(); std::remove("/tmp/verif_loaddb_probe.out");
  printf("after LoadDatabase: output file %s, output string %d line(s)\n", file ? "written" : "not written", p.GetOutputStringLineCount());
  return (!file && p.GetOutputStringLineCount() == 0) ? 0 : 1;
}
