// Replay (pre-fix, see known_findings.json): two initial solutions and a GAS_PHASE with 50 atm CO2 in one input (`USE gas_phase none`), USER_PUNCH
// `PR_P("CO2(g)"), PR_PHI("CO2(g)")`.  tidy_gas_phase leaves phase::pr_in set for CO2(g).  With the output on, print_saturation_indices
// resets pr_in of EVERY phase it lists after the first solution; with all output sinks off the non-printing path (set_pr_in_false)
// reset only pure-phase unknowns and the components of the gas phase in use - none here - so the second row still showed 50 / 0.738
// where the run with the output string on shows 0 / 1: computed results depended on a sink switch.
// cwd = /repo/database.  exit 1 when the second row differs between the two runs.
#include "IPhreeqc.hpp"
#include <cmath>
#include <cstdio>
static void run(bool out, double v[2]){
  IPhreeqc p; p.LoadDatabase("phreeqc.dat"); p.SetOutputStringOn(out);
  p.RunString("SOLUTION 1\n pH 7\n Na 1\n C 1\nSOLUTION 2\n pH 6\n K 1\n C 2\nGAS_PHASE 1\n -fixed_volume\n -volume 1\n CO2(g) 50\nSELECTED_OUTPUT 1\n -reset false\nUSER_PUNCH 1\n -headings p phi\n"
              " 10 PUNCH PR_P(\"CO2(g)\"), PR_PHI(\"CO2(g)\")\nUSE gas_phase none\nEND\n");
  for (int c = 0; c < 2; c++) { VAR a; VarInit(&a); p.GetSelectedOutputValue(2, c, &a); v[c] = a.type == TT_DOUBLE ? a.dVal : NAN; VarClear(&a); }
}
int main(){
  double off[2], on[2]; run(false, off); run(true, on);
  printf("row of SOLUTION 2: output off PR_P %.4g PR_PHI %.4g;  output string on PR_P %.4g PR_PHI %.4g\n", off[0], off[1], on[0], on[1]);
  return off[0] == on[0] && off[1] == on[1] ? 0 : 1;
}
