// Replay (pre-fix, see known_findings.json): system_total_elt_secondary built the element list of every aqueous species from s_x[i] (i = running
// number of the surface charge) instead of s_x[j] and left its loop at the first match: SYS("S(6)") lacked the diffuse-layer part that SYS("S")
// has: 1.14510e-3 against 1.15749e-3 mol with a -donnan Hfo surface (all sulfur is S(6)).  cwd = /repo/database.
// exit 1 when SYS("S(6)") differs from SYS("S") by more than 1e-9 relative.
#include "IPhreeqc.hpp"
#include <cmath>
#include <cstdio>
int main(){
  IPhreeqc p; p.LoadDatabase("phreeqc.dat");
  const char *in = "SOLUTION 1\n pH 6\n Na 20\n Cl 20 charge\n S(6) 1\nSURFACE 1\n Hfo_w 0.002 600 1\n -equilibrate 1\n -donnan\nEND\n"
                   "SELECTED_OUTPUT 1\n -reset false\n -high_precision\nUSER_PUNCH 1\n -headings SYS_S SYS_S6 EDL_S\n 10 PUNCH SYS(\"S\"), SYS(\"S(6)\"), EDL(\"S\", \"Hfo\")\n"
                   "USE solution 1\nUSE surface 1\nREACTION 1\n NaCl 1\n 0.001\nEND\n";
  if (p.RunString(in)) { printf("%s", p.GetErrorString()); return 2; }
  int last = p.GetSelectedOutputRowCount() - 1; double v[3];
  for (int c = 0; c < 3; c++) { VAR a; VarInit(&a); p.GetSelectedOutputValue(last, c, &a); v[c] = a.type == TT_DOUBLE ? a.dVal : 0; VarClear(&a); }
  printf("SYS(\"S\") = %.9e   SYS(\"S(6)\") = %.9e   EDL(\"S\") = %.9e\n", v[0], v[1], v[2]);
  return fabs(v[0] - v[1]) > 1e-9 * v[0] ? 1 : 0;
}
