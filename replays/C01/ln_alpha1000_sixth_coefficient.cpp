// Replay (pre-fix, see known_findings.json): NAMED_EXPRESSIONS `-ln_alpha1000 a1..a6` gives 1000 ln(alpha); read_named_logk converts the
// coefficients to log10 by dividing by 1000 ln 10 - but looped `i < T_A6`, so the sixth coefficient (T^2 term) was left unconverted.
// `X6 -ln_alpha1000 0 0 0 0 0 1e-3` at 25 C: LK_NAMED = 88.893 (= 1e-3 T^2) instead of 1e-3 T^2 / (1000 ln 10) = 0.0386059.
// cwd = /repo/database.  exit 1 when the value differs from the defining expression.
#include "IPhreeqc.hpp"
#include <cstdio>
#include <cmath>
int main(){
  IPhreeqc p; if (p.LoadDatabase("phreeqc.dat")) return 2;
  const char* in =
   "NAMED_EXPRESSIONS\nX6\n -ln_alpha1000 0 0 0 0 0 1e-3\nX5\n -ln_alpha1000 0 0 0 0 1e6\n"
   "SOLUTION 1\n temp 25\nSELECTED_OUTPUT 1\n -reset false\n -high_precision true\nUSER_PUNCH 1\n -headings x6 x5\n 10 PUNCH LK_NAMED(\"X6\"), LK_NAMED(\"X5\")\nEND\n";
  if (p.RunString(in)) { printf("%s\n", p.GetErrorString()); return 2; }
  VAR v; VarInit(&v); p.GetSelectedOutputValue(1, 0, &v); double x6 = v.dVal; VarClear(&v);
  VarInit(&v); p.GetSelectedOutputValue(1, 1, &v); double x5 = v.dVal; VarClear(&v);
  double T = 298.15, e6 = 1e-3 * T * T / (1000.0 * log(10.0)), e5 = 1e6 / (T * T) / (1000.0 * log(10.0));
  printf("LK_NAMED(X6) = %.9f (defining expression %.9f)   LK_NAMED(X5) = %.9f (%.9f)\n", x6, e6, x5, e5);
  if (fabs(x6 - e6) > 1e-9 || fabs(x5 - e5) > 1e-9) { printf("FAIL\n"); return 1; }
  printf("OK\n"); return 0;
}
