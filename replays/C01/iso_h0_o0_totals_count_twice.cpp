// Replay (pre-fix, see known_findings.json): with iso.dat the reported totals of H(0) and O(0) counted the mixed isotopologues HD, HT, O[18O]
// (-mole_balance H(0)D(0) ...) twice: tidy_species skipped the division by the atoms of the master species (H2, O2: 2) for elements whose primary
// master is H+ or H2O, build_species_list multiplied by 2.  TOT("H(0)") exceeded 2 m(H2) + m(HD) + m(HT) by m(HD) (1.5e-4 relative) at pe -6,
// TOT("O(0)") exceeded 2 m(O2) + m(O[18O]) by m(O[18O]) (2e-3) at pe 14.  cwd = /repo/database.  exit 1 when a total differs from the sum by > 1e-8.
#include "IPhreeqc.hpp"
#include <cmath>
#include <cstdio>
int main(){
  IPhreeqc p; if (p.LoadDatabase("iso.dat")) { printf("%s", p.GetErrorString()); return 2; }
  const char *in =
    "SOLUTION 1\n pH 7.0\n pe -6\n Na 1\n Cl 1 charge\n D -50\n [18O] -8\n T 10\nSOLUTION 2\n pH 7.0\n pe 14\n Na 1\n Cl 1 charge\n D -50\n [18O] -8\nEND\n"
    "SELECTED_OUTPUT 1\n -reset false\n -high_precision\nUSER_PUNCH 1\n -headings TOT_H0 sum_H0 TOT_O0 sum_O0\n"
    " 20 PUNCH TOT(\"H(0)\"), 2*MOL(\"H2\")+MOL(\"HD\")+MOL(\"HT\")\n 50 PUNCH TOT(\"O(0)\"), 2*MOL(\"O2\")+MOL(\"O[18O]\")\n"
    "USE solution 1\nREACTION 1\n NaCl 1\n 0.001\nEND\nUSE solution 2\nREACTION 1\n NaCl 1\n 0.001\nEND\n";
  if (p.RunString(in)) { printf("%s", p.GetErrorString()); return 2; }
  int bad = 0;
  for (int r = 1; r < p.GetSelectedOutputRowCount(); r++) { double v[4];
    for (int c = 0; c < 4; c++) { VAR a; VarInit(&a); p.GetSelectedOutputValue(r, c, &a); v[c] = a.type == TT_DOUBLE ? a.dVal : 0; VarClear(&a); }
    for (int k = 0; k < 4; k += 2) if (v[k] > 1e-12) { double rel = fabs(v[k] - v[k + 1]) / v[k];
      printf("row %d %s: total %.10e, sum over species %.10e, relative difference %.2e\n", r, k ? "O(0)" : "H(0)", v[k], v[k + 1], rel); if (rel > 1e-8) bad++; } }
  return bad ? 1 : 0;
}
