// Replay (pre-fix, see known_findings.json): iso.dat, a solution with dissolved oxygen and 18O.  For a species with -mole_balance (O[18O]: O(0)[18O](0))
// tidy_species divides the coefficient of a valence state whose master holds two atoms (O2) by 2 IN PLACE - and tidy_species runs again
// after every later block that changes the model.  One unrelated PHASES block entered after the database was loaded therefore counted
// O[18O] with 1/4 instead of 1/2 in the O(0) total, the next one with 1/8 ...: the same stored state gave m(O2) 9.9890e-5, 9.9989e-5,
// 1.00039e-4, and the species molalities no longer added up to the reported total (the C01 property).
// cwd = /repo/database.  exit 1 when m(O2) of the same state changes after a dummy PHASES block.
#include "IPhreeqc.hpp"
#include <cmath>
#include <cstdio>
static double o2(IPhreeqc &p){
  p.RunString("SELECTED_OUTPUT 1\n -reset false\n -high_precision true\nUSER_PUNCH 1\n -headings o2\n 10 PUNCH MOL(\"O2\")\nRUN_CELLS\n -cells 1\nEND\n");
  VAR v; VarInit(&v); p.GetSelectedOutputValue(1, 0, &v); double r = v.type == TT_DOUBLE ? v.dVal : NAN; VarClear(&v); return r;
}
int main(){
  IPhreeqc p; if (p.LoadDatabase("iso.dat")) { printf("%s", p.GetErrorString()); return 2; }
  p.RunString("SOLUTION 1\n pH 7.5\n temp 20\n Na 10\n Cl 10\n Ca 2\n C 4\n O(0) 0.2\n [18O] -8\nEQUILIBRIUM_PHASES 1\n Calcite 0 0.1\n CO2(g) -2 1\nEND\n");
  double a = o2(p);
  p.RunString("PHASES\nDummy\n NaCl = Na+ + Cl-\n log_k 1.5\nEND\n");
  double b = o2(p);
  p.RunString("PHASES\nDummy2\n KCl = K+ + Cl-\n log_k 1.5\nEND\n");
  double c = o2(p);
  printf("m(O2) of the same cell: %.10e, after an unrelated PHASES block %.10e, after a second one %.10e\n", a, b, c);
  return fabs(a - b) < 1e-7 * a && fabs(a - c) < 1e-7 * a ? 0 : 1;   // re-solving the same cell agrees to the convergence tolerance (1e-10)
}
