// Replay (pre-fix, see known_findings.json): `EQUILIBRIUM_PHASES 1; Calcite 0 1; calcite 0.5 2`.  The reader keyed the components by the name as
// typed, so the one phase got two components and two unknowns; xpp_assemblage_save looks components up without regard to case and wrote
// both unknowns into the first: the saved assemblage held `Calcite` 0 mol and `calcite` 2 mol (its initial amount) while the calculation
// reported 2.99987 mol of calcite - a mole of mineral was lost between the reported and the saved state.  A repeated phase line in the
// SAME capitalisation has always replaced the earlier one; any capitalisation does now.
// cwd = /repo/database.  exit 1 when the saved assemblage does not hold the calcite the calculation reports.
#include "IPhreeqc.hpp"
#include <cmath>
#include <cstdio>
#include <cstdlib>
#include <string>
int main(){
  IPhreeqc p; p.LoadDatabase("phreeqc.dat"); p.SetDumpStringOn(true);
  int e = p.RunString("SOLUTION 1\n pH 7\n Na 1\n Cl 1 charge\nEQUILIBRIUM_PHASES 1\n Calcite 0 1\n calcite 0.5 2\nSELECTED_OUTPUT 1\n -reset false\n -equilibrium_phases Calcite\n"
                      "SAVE equilibrium_phases 1\nEND\nDUMP\n -equilibrium_phases 1\nEND\n");
  if (e) { printf("%s", p.GetErrorString()); return 2; }
  VAR a; VarInit(&a); p.GetSelectedOutputValue(p.GetSelectedOutputRowCount() - 1, 0, &a); double reported = a.type == TT_DOUBLE ? a.dVal : NAN; VarClear(&a);
  std::string d = p.GetDumpString(); double saved = 0; int comps = 0; size_t i = 0;
  while ((i = d.find("-component", i)) != std::string::npos) { comps++; size_t m = d.find("-moles", i); if (m != std::string::npos) saved += atof(d.c_str() + m + 6); i += 10; }
  printf("calcite reported by the calculation %.6f mol; saved assemblage: %d component(s), %.6f mol\n", reported, comps, saved);
  return comps == 1 && fabs(saved - reported) < 1e-9 ? 0 : 1;
}
