// Replay (pre-fix, see known_findings.json).  An exchanger related to calcite (0.1 mol X / mol calcite) while calcite is absent has no
// sites.  Simulation 1 defines solution, phase assemblage and exchanger together, so PHREEQC also runs an (unsaved) batch reaction in which
// calcite precipitates and the exchanger grows to 4.76e-5 eq.  The next call USEs the stored (site-less) exchanger: the model was taken
// for the same one and quick_setup() left the EXCH unknown at the 4.76e-5 eq of the unsaved calculation: after adding Na2CO3 the exchanger
// held 1.465e-4 eq although 0.1 x calcite = 9.89e-5.  cwd = /repo/database.  exit 1 if sites != 0.1 x calcite (1e-6 relative).
#include "IPhreeqc.hpp"
#include <cstdio>
#include <cmath>
static double val(IPhreeqc& p, int r, int c){ VAR v; VarInit(&v); p.GetSelectedOutputValue(r,c,&v); double d = v.type==TT_DOUBLE? v.dVal : NAN; VarClear(&v); return d; }
int main(){
  IPhreeqc p; if (p.LoadDatabase("phreeqc.dat")) return 2;
  const char* s1 =
   "SOLUTION 1\n pH 7 charge\n Na 10\n Cl 10\n Ca 1\n C(4) 0.5\n"
   "EQUILIBRIUM_PHASES 1\n Calcite 0 0\n"
   "EXCHANGE 1\n X Calcite equilibrium_phase 0.1\n -equil 1\n"
   "SELECTED_OUTPUT 1\n -reset false\n -high_precision true\nUSER_PUNCH 1\n -headings calc X\n 10 PUNCH EQUI(\"Calcite\"), TOT(\"X\")*TOT(\"water\")\nEND\n";
  const char* s2 =
   "USE solution 1\nUSE equilibrium_phases 1\nUSE exchange 1\nREACTION 1\n Na2CO3 1\n 0.005 mol\nEND\n";
  if (p.RunString(s1) || p.RunString(s2)) { printf("%s\n", p.GetErrorString()); return 2; }
  int r = p.GetSelectedOutputRowCount() - 1;
  double calc = val(p, r, 0), x = val(p, r, 1);
  printf("calcite %.9e mol, exchanger %.9e eq, 0.1 x calcite = %.9e\n", calc, x, 0.1 * calc);
  if (fabs(x - 0.1 * calc) > 1e-6 * 0.1 * calc) { printf("FAIL: exchange capacity differs from the defined proportion by %.1f %%\n", 100 * (x / (0.1 * calc) - 1)); return 1; }
  printf("OK\n"); return 0;
}
