// Replay (pre-fix, see known_findings.json): set_inert_moles() parks the moles of a precipitate_only phase in unknown::inert_moles during model();
// reset() / ineq() computed the sites and area of a surface related to that phase from phase_unknown->moles alone.
// `Fe(OH)3(a) 0 0.01 precipitate_only` + `Hfo_wOH Fe(OH)3(a) equilibrium_phase 0.2` gave 9.85e-5 mol of sites after the first step
// (0.2 x the 4.9e-4 mol precipitated in that step) and 1.5e-25 after the second, instead of 0.2 x 0.0105 = 2.10e-3.
// cwd = /repo/database.  exit 1 when sites / mineral != 0.2 within 1e-6 after either step.
#include "IPhreeqc.hpp"
#include <cmath>
#include <cstdio>
int main(){
  IPhreeqc p; p.LoadDatabase("phreeqc.dat");
  const char *in =
    "SOLUTION 1\n pH 7\n Na 10\n Cl 10 charge\n Fe(3) 0.5\n Zn 0.01\nEQUILIBRIUM_PHASES 1\n Fe(OH)3(a) 0 0.01 precipitate_only\n"
    "SURFACE 1\n Hfo_wOH Fe(OH)3(a) equilibrium_phase 0.2 5.33e4\n Hfo_sOH Fe(OH)3(a) equilibrium_phase 0.005\n -equilibrate 1\n"
    "SELECTED_OUTPUT 1\n -reset false\n -equilibrium_phases Fe(OH)3(a)\nUSER_PUNCH 1\n -headings Hfo_w\n 10 PUNCH SURF(\"Hfo_w\", \"Hfo\")\n"
    "SAVE solution 2\nSAVE equilibrium_phases 2\nSAVE surface 2\nEND\nUSE solution 2\nUSE equilibrium_phases 2\nUSE surface 2\nEND\n";
  if (p.RunString(in)) { printf("%s", p.GetErrorString()); return 2; }
  int bad = 0, nr = p.GetSelectedOutputRowCount(), nc = p.GetSelectedOutputColumnCount();
  for (int r = 1; r < nr; r++) { double v[8] = {0}; for (int c = 0; c < nc && c < 8; c++) { VAR a; VarInit(&a); p.GetSelectedOutputValue(r, c, &a); v[c] = a.type == TT_DOUBLE ? a.dVal : 0; VarClear(&a); }
    double mineral = v[0], sites = v[nc - 1]; if (mineral <= 0) continue;
    printf("row %d: Fe(OH)3(a) %.6e mol, Hfo_w %.6e mol, ratio %.6f (0.2 expected)\n", r, mineral, sites, sites / mineral);
    if (fabs(sites / mineral - 0.2) > 1e-6) bad++; }
  return bad ? 1 : 0;
}
