// Replay (pre-fix, see known_findings.json): Utilities::Rxn_read_modify stores the range end of a `*_MODIFY n-m` line on
// entry n.  KINETICS_MODIFY 1-3 changes entry 1 only, but a later run that merely defines KINETICS 9 makes tidy_model's "duplicate kinetics"
// loop copy entry 1 over entries 2 and 3 (their KCl / CaCl2 reactants vanish).  EQUILIBRIUM_PHASES_MODIFY 1-3 overwrites 2 and 3 at once.
// cwd = /repo/database.  exit 1 when kinetics 2 no longer holds KCl after the unrelated definition.
#include "IPhreeqc.hpp"
#include <cstdio>
#include <string>
int main(){
  IPhreeqc p; p.LoadDatabase("phreeqc.dat"); p.SetDumpStringOn(true);
  if (p.RunString("RATES\n r1\n -start\n 10 SAVE 0\n -end\nKINETICS 1\n r1\n  -formula NaCl 1\n  -m 1\nKINETICS 2\n r1\n  -formula KCl 1\n  -m 2\nKINETICS 3\n r1\n  -formula CaCl2 1\n  -m 3\nEND\n")) return 2;
  if (p.RunString("KINETICS_MODIFY 1-3\n -component r1\n  -m 7\nEND\n")) { printf("%s", p.GetErrorString()); return 2; }
  if (p.RunString("KINETICS 9\n r1\n  -formula MgCl2 1\n  -m 9\nEND\nDUMP\n -kinetics 2\nEND\n")) { printf("%s", p.GetErrorString()); return 2; }
  std::string d = p.GetDumpString();
  bool kcl = d.find("KCl") != std::string::npos && d.find("NaCl") == std::string::npos;
  printf("%s\nkinetics 2 after `KINETICS_MODIFY 1-3` and an unrelated `KINETICS 9`: %s\n", d.c_str(), kcl ? "still KCl" : "OVERWRITTEN by a copy of kinetics 1");
  return kcl ? 0 : 1;
}
