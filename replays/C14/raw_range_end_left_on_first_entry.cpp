// Replay (pre-fix, see known_findings.json): `KINETICS_RAW 1-3` is expanded when it is read (entries 1, 2, 3), but the first entry kept the range end 3.
// Later: `KINETICS_MODIFY 2 -m 7`, `DELETE -kinetics 3`, and - in a run that defines only `KINETICS 9` - tidy_model's "Duplicate kinetics"
// step, which walks the whole store, copied entry 1 over 2 and 3 again: the modification of entry 2 was reverted (m = 1) and the deleted
// entry 3 came back, although that run names neither.
// cwd = /repo/database.  exit 1 when entry 2 lost its modification or entry 3 exists after the last run.
#include "IPhreeqc.hpp"
#include <cstdio>
#include <cstdlib>
#include <string>
int main(){
  IPhreeqc p; p.LoadDatabase("phreeqc.dat"); p.SetDumpStringOn(true);
  p.RunString("RATES\n r1\n -start\n 10 SAVE 0\n -end\nKINETICS_RAW 1-3 range\n -step_divide 1\n -rk 3\n -bad_step_max 500\n -use_cvode 0\n -cvode_steps 100\n -cvode_order 5\n"
              " -component r1\n  -tol 1e-08\n  -m 1\n  -m0 1\n  -namecoef\n   NaCl 1\n  -d_params\n  -moles 0\n  -initial_moles 0\n -equal_increments 0\n -count 0\n -steps\n  1\n -totals\nEND\n");
  p.RunString("KINETICS_MODIFY 2\n -component r1\n  -m 7\nEND\n");
  p.RunString("DELETE\n -kinetics 3\nEND\n");
  p.RunString("KINETICS 9\n r1\n  -formula KCl 1\n  -m 5\nEND\n");
  p.RunString("DUMP\n -kinetics 1-9\nEND\n");
  std::string d = p.GetDumpString();
  size_t i2 = d.find("KINETICS_RAW                 2"), i3 = d.find("KINETICS_RAW                 3");
  double m2 = -1; if (i2 != std::string::npos) { size_t m = d.find("-m ", i2); m2 = atof(d.c_str() + m + 3); }
  printf("after the run that defines only KINETICS 9: entry 2 has m = %g (7 expected), entry 3 %s\n", m2, i3 == std::string::npos ? "absent" : "PRESENT again");
  return m2 == 7 && i3 == std::string::npos ? 0 : 1;
}
