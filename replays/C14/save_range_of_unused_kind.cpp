// Replay (pre-fix, see known_findings.json): `SAVE exchange 3-5` (likewise equilibrium_phases, gas_phase, surface, solid_solutions) in a
// run that uses no exchanger: xexchange_save(3) returns without storing anything, but saver() went on to copy entry 3 - the old,
// unrelated definition - over entries 4 and 5: EXCHANGE 4 (KX) was replaced by NaX, EXCHANGE 5 created; K left the component list.
// cwd = /repo/database.  exit 1 when entry 4 of a kind no longer holds what was defined for it, or entry 5 exists.
#include "IPhreeqc.hpp"
#include <cstdio>
#include <string>
static std::string block(const std::string &d, const std::string &head){
  size_t i = d.find(head); if (i == std::string::npos) return "";
  size_t j = d.find("_RAW", i + head.size()); return d.substr(i, j == std::string::npos ? std::string::npos : j - i);
}
int main(){
  IPhreeqc p; p.LoadDatabase("phreeqc.dat"); p.SetDumpStringOn(true);
  p.RunString("SOLUTION 1\n Na 1\n Cl 1\nEXCHANGE 3\n NaX 0.1\nEXCHANGE 4\n KX 0.2\nEQUILIBRIUM_PHASES 3\n Calcite 0 1\nEQUILIBRIUM_PHASES 4\n Gypsum 0 2\n"
              "GAS_PHASE 3\n -fixed_volume\n CO2(g) 0.1\nGAS_PHASE 4\n -fixed_volume\n N2(g) 0.2\nUSE solution none\nEND\n");
  int e = p.RunString("USE solution 1\nREACTION 1\n NaCl 1\n 0.001\nSAVE exchange 3-5\nSAVE equilibrium_phases 3-5\nSAVE gas_phase 3-5\nEND\n");
  p.RunString("DUMP\n -exchange\n -equilibrium_phases\n -gas_phase\nEND\n");
  std::string d = p.GetDumpString();
  int bad = 0;
  struct { const char *head4, *want, *head5; } k[] = {{"EXCHANGE_RAW                 4", "KX", "EXCHANGE_RAW                 5"},
       {"EQUILIBRIUM_PHASES_RAW       4", "Gypsum", "EQUILIBRIUM_PHASES_RAW       5"}, {"GAS_PHASE_RAW                4", "N2(g)", "GAS_PHASE_RAW                5"}};
  for (auto &x : k) {
    std::string b = block(d, x.head4);
    bool keeps = b.find(x.want) != std::string::npos, five = d.find(x.head5) != std::string::npos;
    printf("%-32s %s%s\n", x.head4, keeps ? "keeps its definition" : "REPLACED by entry 3", five ? ", entry 5 CREATED" : "");
    if (!keeps || five) bad++;
  }
  printf("errors of the SAVE run: %d\n", e);
  return bad ? 1 : 0;
}
