// Replay (pre-fix, see known_findings.json): `SOLUTION 1 my water`, later `SOLUTION_MODIFY 1; -totals; Na 0.02`.  Rxn_read_modify ended with
// Set_description(<description of the MODIFY line>) unconditionally: a MODIFY block without a description - the normal case - erased the
// description of the entry, a quantity the block does not name (DUMP: `SOLUTION_RAW 1 ` with an empty description).
// cwd = /repo/database.  exit 1 when the description is gone after the MODIFY.
#include "IPhreeqc.hpp"
#include <cstdio>
#include <string>
int main(){
  IPhreeqc p; p.LoadDatabase("phreeqc.dat"); p.SetDumpStringOn(true);
  p.RunString("SOLUTION 1 my water\n Na 1\n Cl 1\nEND\n");
  int e = p.RunString("SOLUTION_MODIFY 1\n -totals\n  Na 0.02\nEND\nDUMP\n -solution 1\nEND\n");
  if (e) { printf("%s", p.GetErrorString()); return 2; }
  std::string d = p.GetDumpString(); size_t i = d.find("SOLUTION_RAW"); std::string head = i == std::string::npos ? "" : d.substr(i, d.find('\n', i) - i);
  printf("header line after the MODIFY: `%s`\n", head.c_str());
  return head.find("my water") != std::string::npos ? 0 : 1;
}
