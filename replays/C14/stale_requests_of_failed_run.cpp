// Replay (pre-fix, see known_findings.json): COPY and DELETE are read during read_input and carried out at the end of the simulation.  A run that
// stops on an input error never carries them out, and nothing discarded them: the next RunString - which contains neither keyword - copied
// solution 1 to 5 and deleted solution 1.  cwd = /repo/database.  exit 1 when the store after the unrelated run is not {1, 3}.
#include "IPhreeqc.hpp"
#include <cstdio>
#include <string>
int main(){
  IPhreeqc p; p.LoadDatabase("phreeqc.dat"); p.SetDumpStringOn(true);
  if (p.RunString("SOLUTION 1\n Na 1\n Cl 1\nEND\n")) return 2;
  int r1 = p.RunString("COPY solution 1 5\nDELETE\n -solution 1\nSOLUTION 2\n Na 1 as\nNO_SUCH_KEYWORD_LINE 1 2 3\n -bogus\nEND\n");
  printf("run with an input error: rc=%d\n", r1);
  if (r1 == 0) { printf("the second run was expected to fail\n"); return 2; }
  int r2 = p.RunString("SOLUTION 3\n K 1\n Cl 1\nEND\nDUMP\n -solution 1-9\nEND\n");
  std::string d = p.GetDumpString();
  bool s1 = d.find("SOLUTION_RAW                 1 ") != std::string::npos, s5 = d.find("SOLUTION_RAW                 5 ") != std::string::npos,
       s3 = d.find("SOLUTION_RAW                 3 ") != std::string::npos;
  printf("unrelated run: rc=%d; afterwards solution 1 %s, solution 3 %s, solution 5 %s\n", r2, s1 ? "present" : "DELETED", s3 ? "present" : "missing", s5 ? "CREATED" : "absent");
  return (r2 == 0 && s1 && s3 && !s5) ? 0 : 1;
}
