// Replay (known finding, see known_findings.json): `SOLUTION 1-3` (Na, Cl) followed IN THE SAME SIMULATION by `SOLUTION 2` (K, Cl): the range is
// expanded after all input has been read, in number order (initial_solutions: Rxn_copies(map, 1, 3)), so the copy of entry 1 replaces
// the explicit definition of entry 2, which is then skipped (new_def false).  The same for EQUILIBRIUM_PHASES, EXCHANGE, SURFACE,
// GAS_PHASE, SOLID_SOLUTIONS and KINETICS; REACTION, MIX, REACTION_TEMPERATURE and REACTION_PRESSURE expand when they are read and keep
// the later definition - as all kinds do when the two definitions are in different simulations.
// cwd = /repo/database.  exit 1 when entry 2 does not hold its own (later) definition.
#include "IPhreeqc.hpp"
#include <cstdio>
#include <string>
static std::string block(const std::string &d, const std::string &head){
  size_t i = d.find(head); if (i == std::string::npos) return "";
  size_t j = d.find("_RAW", i + head.size()); return d.substr(i, j == std::string::npos ? std::string::npos : j - i);
}
int main(){
  IPhreeqc p; p.LoadDatabase("phreeqc.dat"); p.SetDumpStringOn(true);
  int e = p.RunString("SOLUTION 1-3\n Na 1\n Cl 1\nSOLUTION 2\n K 5\n Cl 5\nEQUILIBRIUM_PHASES 1-3\n Calcite 0 1\nEQUILIBRIUM_PHASES 2\n Gypsum 0 1\n"
                      "EXCHANGE 1-3\n NaX 0.1\nEXCHANGE 2\n KX 0.1\nREACTION 1-3\n NaCl 1\n 0.001\nREACTION 2\n KCl 1\n 0.002\nUSE solution none\nEND\n");
  p.RunString("DUMP\n -all\nEND\n");
  std::string d = p.GetDumpString(); int bad = 0;
  struct { const char *head, *want; } k[] = {{"SOLUTION_RAW                 2", "K "}, {"EQUILIBRIUM_PHASES_RAW       2", "Gypsum"}, {"EXCHANGE_RAW                 2", "KX"},
                                             {"REACTION_RAW                 2", "KCl"}};
  for (auto &x : k) {
    bool ok = block(d, x.head).find(x.want) != std::string::npos;
    printf("%-32s %s\n", x.head, ok ? "holds its own definition" : "is a copy of entry 1 (later definition LOST)");
    if (!ok) bad++;
  }
  printf("errors: %d\n", e);
  return bad ? 1 : 0;
}
