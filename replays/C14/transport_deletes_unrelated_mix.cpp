// Replay (pre-fix, see known_findings.json): a column with first-order stagnant exchange (`-stagnant 1 6.8e-6 0.3 0.3`) generates MIX entries for its
// mobile cells 1..n and stagnant cells n+2..2n+1.  transport() and transport_cleanup() made room for them with Rxn_mix_map.clear(): EVERY
// MIX of the instance was deleted, also `MIX 100`, which names no cell of the column - a later `USE mix 100` stopped with
// "Mix 100 not found."  (keyed store: a run removes only the entries it owns).
// cwd = /repo/database.  exit 1 when MIX 100 is gone after the TRANSPORT run.
#include "IPhreeqc.hpp"
#include <cstdio>
#include <cstring>
int main(){
  IPhreeqc p; p.LoadDatabase("phreeqc.dat"); p.SetDumpStringOn(true);
  int e = p.RunString("SOLUTION 1-3\n Na 1\n Cl 1\nSOLUTION 5-7\n K 10\n Br 10\nMIX 100\n 1 0.5\n 2 0.5\nEND\n"
                      "TRANSPORT\n -cells 3\n -shifts 1\n -flow_direction diffusion_only\n -boundary_conditions closed closed\n -lengths 3*0.1\n -diffusion_coefficient 1e-13\n"
                      " -time_step 3600\n -stagnant 1 6.8e-6 0.3 0.3\nEND\n");
  if (e) { printf("%s", p.GetErrorString()); return 2; }
  int e2 = p.RunString("USE mix 100\nEND\n");
  p.RunString("DUMP\n -mix\nEND\n");
  const char *d = p.GetDumpString();
  bool has100 = strstr(d, "MIX_RAW                      100") != NULL, has1 = strstr(d, "MIX_RAW                      1 ") != NULL;
  printf("after the TRANSPORT run: `USE mix 100` gives %d error(s); MIX 100 %s; generated MIX 1 %s\n", e2, has100 ? "still defined" : "DELETED", has1 ? "left behind" : "removed");
  return e2 == 0 && has100 && !has1 ? 0 : 1;
}
