// Replay (pre-fix, see known_findings.json): like COPY / DELETE / *_MIX, a DUMP or RUN_CELLS block is recorded while the input is read and
// carried out at the end of the simulation; after a simulation that stopped on an input error the next RunString (`SOLUTION 3` only) ran
// cell 1 (a selected-output row for solution 1) and dumped solution 1.  cwd = /repo/database.
// exit 1 when the unrelated run produces a dump or a row for cell 1.
#include "IPhreeqc.hpp"
#include <cstdio>
#include <string>
int main(){
  IPhreeqc p; p.LoadDatabase("phreeqc.dat"); p.SetDumpStringOn(true); p.SetSelectedOutputStringOn(true);
  if (p.RunString("SOLUTION 1\n Na 1\n Cl 1\nSELECTED_OUTPUT 1\n -reset false\n -solution true\nEND\n")) return 2;
  int r1 = p.RunString("RUN_CELLS\n -cells 1\nDUMP\n -solution 1\nSOLUTION 2\n Na 1 as\nBOGUS_LINE 1 2\n -zz\nEND\n");
  if (r1 == 0) { printf("the second run was expected to fail\n"); return 2; }
  int r2 = p.RunString("SOLUTION 3\n K 1\n Cl 1\nEND\n");
  std::string d = p.GetDumpString();
  int rows = p.GetSelectedOutputRowCount();
  printf("unrelated run rc=%d: dump string %zu bytes, selected-output rows %d (heading + solution 3 = 2 expected)\n", r2, d.size(), rows);
  return (r2 == 0 && d.find("SOLUTION_RAW") == std::string::npos && rows == 2) ? 0 : 1;
}
