// Replay (known finding, see known_findings.json): two SOLUTION_MIX blocks in one simulation, `SOLUTION_MIX 3; 2 1.0` followed by `SOLUTION_MIX 2; 1 1.0`.
// In input order solution 3 becomes the OLD solution 2 (K) and solution 2 becomes solution 1 (Na) - that is what the same two
// assignments written as COPY do.  The *_MIX requests are kept in std::map<int, cxxMix> keyed by the target number and carried out in
// that order: first 2 := 1, then 3 := 2, so solution 3 ends up as a copy of solution 1 (Na).
// cwd = /repo/database.  exit 1 when solution 3 does not hold the old solution 2.
#include "IPhreeqc.hpp"
#include <cstdio>
#include <string>
int main(){
  IPhreeqc p; p.LoadDatabase("phreeqc.dat"); p.SetDumpStringOn(true);
  p.RunString("SOLUTION 1\n Na 1\n Cl 1\nSOLUTION 2\n K 2\n Cl 2\nEND\n");
  int e = p.RunString("SOLUTION_MIX 3\n 2 1.0\nSOLUTION_MIX 2\n 1 1.0\nEND\nDUMP\n -solution 3\nEND\n");
  if (e) { printf("%s", p.GetErrorString()); return 2; }
  std::string d = p.GetDumpString(); size_t t = d.find("-totals"); std::string tot = d.substr(t, d.find("-", t + 8) - t);
  bool k = tot.find("K ") != std::string::npos, na = tot.find("Na ") != std::string::npos;
  printf("solution 3 after `SOLUTION_MIX 3 <- 2` then `SOLUTION_MIX 2 <- 1`: %s\n", k && !na ? "K (the old solution 2: input order)" : "Na (solution 1: the requests ran in number order)");
  return k && !na ? 0 : 1;
}
