// Replay: the component list is marked stale only at the normal end of IPhreeqc::do_run.  A run that defines reactants in
// its first simulation and fails in a later one leaves through the exception path; GetComponentCount then returns the list
// cached before the run although new reactants exist.  exit 1 = stale list observed.
#include <cstdio>
#include <string>
#include "IPhreeqc.hpp"
int main() {
  IPhreeqc a;
  if (a.LoadDatabase("phreeqc.dat")) return 2;
  a.RunString("SOLUTION 1\n Na 1\n Cl 1\nEND\n");
  size_t n0 = a.GetComponentCount();                    // refreshes and caches: Cl, Na (+H,O? no: only non-H/O elements)
  int rc = a.RunString("SOLUTION 2\n K 1\n Ca 1\nEND\nUSE solution 2\nEQUILIBRIUM_PHASES 3\n Nosuchphase 0 1\nEND\n");   // 1st simulation stores solution 2, 2nd fails
  size_t n1 = a.GetComponentCount();
  // reference: a fresh refresh forced by a successful empty run
  a.RunString("TITLE x\nEND\n");
  size_t n2 = a.GetComponentCount();
  printf("components before=%zu, after failed run (rc=%d)=%zu, after next successful run=%zu\n", n0, rc, n1, n2);
  if (n1 != n2) { printf("RESULT: FAIL (component list stale after a failed run: %zu vs %zu)\n", n1, n2); return 1; }
  printf("RESULT: PASS\n"); return 0;
}
