// Replay (pre-fix, see known_findings.json): Phreeqc::list_components computes the element tally of every KINETICS entry by calling
// calc_dummy_kinetic_reaction_tally on the STORED entry before copying it: asking for the component list (GetComponentCount) rewrote the
// `-totals` of the stored kinetics, so the DUMP of the same state differed depending on whether the list had been read.
// cwd = /repo/database.  exit 1 when reading the component list changes the dumped state.
#include "IPhreeqc.hpp"
#include <cstdio>
#include <string>
int main(){
  IPhreeqc p; if (p.LoadDatabase("phreeqc.dat")) return 2;
  p.SetDumpStringOn(true);
  const char* def =
   "RATES\nKBr_diss\n-start\n10 SAVE 0\n-end\nSOLUTION 1\n Na 1\n Cl 1\nKINETICS 1\nKBr_diss\n -formula KBr 1 NaCl 1\n -m0 1\nEND\n";
  if (p.RunString(def)) { printf("%s\n", p.GetErrorString()); return 2; }
  if (p.RunString("DUMP\n -kinetics 1\nEND\n")) return 2;
  std::string d1 = p.GetDumpString();
  size_t n = p.GetComponentCount();
  if (p.RunString("DUMP\n -kinetics 1\nEND\n")) return 2;
  std::string d2 = p.GetDumpString();
  printf("components: %d\n", (int) n);
  if (d1 != d2) { printf("FAIL: GetComponentCount() changed the stored KINETICS entry\n--- before\n%s--- after\n%s", d1.c_str(), d2.c_str()); return 1; }
  printf("OK\n"); return 0;
}
