// Replay (pre-fix, see known_findings.json): check_same_model() compared solid solutions by the NAME of each solid solution only.  Two cells run
// one after the other (RUN_CELLS 1-2) whose solid solution `Carb` has the same name and number of components but another end-member
// (Calcite+Strontianite, then Calcite+Witherite) were taken for the same model: the second cell was solved with the unknowns of the
// first (Strontianite) while the result was stored in the component at the same position (Witherite): Sr vanished from solution 2
// although cell 2 holds no Sr solid, and Witherite grew without taking Ba.  cwd = /repo/database.
// exit 1 if Sr or Ba of cell 2 (solution + solid solution) is not conserved to 1e-9 relative.
#include "IPhreeqc.hpp"
#include <cstdio>
#include <cmath>
#include <string>
static double val(IPhreeqc& p, int r, int c){ VAR v; VarInit(&v); p.GetSelectedOutputValue(r,c,&v); double d = v.type==TT_DOUBLE? v.dVal : (v.type==TT_LONG? (double)v.lVal : NAN); VarClear(&v); return d; }
int main(){
  IPhreeqc p; if (p.LoadDatabase("phreeqc.dat")) return 2;
  const char* def =
   "SOLUTION 1\n pH 8.0\n Ca 2.0\n Sr 1.0\n Ba 1.0\n C(4) 3.0\n Cl 2.0 charge\n"
   "SOLUTION 2\n pH 8.2\n Ca 3.0\n Sr 0.5\n Ba 2.0\n C(4) 4.0\n Cl 2.0 charge\nEND\n"
   "SOLID_SOLUTIONS 1\n Carb\n -comp Calcite 0.1\n -comp Strontianite 0.01\n"
   "SOLID_SOLUTIONS 2\n Carb\n -comp Calcite 0.1\n -comp Witherite 0.01\nEND\n";
  if (p.RunString(def)) { printf("%s\n", p.GetErrorString()); return 2; }
  const char* run =
   "SELECTED_OUTPUT 1\n -reset false\n -high_precision true\n"
   "USER_PUNCH 1\n -headings cell Sr_sol Ba_sol Stront With\n"
   "10 PUNCH CELL_NO, TOTMOLE(\"Sr\"), TOTMOLE(\"Ba\"), S_S(\"Strontianite\"), S_S(\"Witherite\")\n"
   "RUN_CELLS\n -cells 1-2\nEND\n";
  if (p.RunString(run)) { printf("%s\n", p.GetErrorString()); return 2; }
  int bad = 0;
  for (int r = 1; r < p.GetSelectedOutputRowCount(); r++) {
    int cell = (int) val(p, r, 0);
    double sr = val(p,r,1) + val(p,r,3), ba = val(p,r,2) + val(p,r,4);
    double sr0 = cell==1 ? 1.0e-3 + 0.01 : 0.5e-3, ba0 = cell==1 ? 1.0e-3 : 2.0e-3 + 0.01;
    printf("cell %d: Sr system %.9e (defined %.9e)  Ba system %.9e (defined %.9e)\n", cell, sr, sr0, ba, ba0);
    if (fabs(sr - sr0) > 1e-6 * sr0 || fabs(ba - ba0) > 1e-6 * ba0) bad++;   // input concentrations are per kgw: tolerance covers the water mass
  }
  if (bad) { printf("FAIL: %d cell(s) do not conserve Sr / Ba\n", bad); return 1; }
  printf("OK\n"); return 0;
}
