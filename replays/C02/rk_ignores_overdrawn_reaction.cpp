// Replay (pre-fix, see known_findings.json): a REACTION that removes 3e-4 mol KNO3 from a cell that holds 1e-4 mol N, together with KINETICS (default
// Runge-Kutta).  rk_kinetics ignored the MASS_BALANCE result of its first set_and_run_wrapper call and called saver() on the half-assembled
// system: only a "Negative moles ... Recovering" warning, RunString returned 0, and the saved state held the exchanger's cations twice
// (Ca 5.14e-3 -> 9.28e-3 mol in solution + exchanger) and no N.  Without KINETICS, or with -cvode true, the same input stops with
// "Negative concentration in solution 1".
// cwd = /repo/database.  exit 1 when the run does not end with that error.
#include "IPhreeqc.hpp"
#include <cstdio>
#include <cstring>
int main(){
  IPhreeqc p; p.LoadDatabase("phreeqc.dat");
  p.RunString("RATES\n slow\n -start\n 10 SAVE 1e-9 * TIME\n -end\nEND\nSOLUTION 1\n pH 7 charge\n Ca 1\n Na 10\n K 1\n N(5) 0.1\n Cl 12.9\nEND\nEXCHANGE 1\n X 0.01\n -equilibrate 1\nEND\n"
              "KINETICS 1\n slow\n -formula NaCl 1\n -m0 1\n -steps 100\nEND\n");
  int e = p.RunString("USE solution 1\nUSE exchange 1\nUSE kinetics 1\nREACTION 1\n KNO3 -1\n 0.0003\nSAVE solution 1\nSAVE exchange 1\nEND\n");
  bool said = strstr(p.GetErrorString(), "Negative concentration") != NULL;
  printf("errors %d; %s\n", e, said ? "stopped with `Negative concentration in solution`" : "NO error: the overdrawn reaction was carried out");
  return e > 0 && said ? 0 : 1;
}
