// Replay (pre-fix, see known_findings.json): check_same_model() did not look at the exchangers at all.  RUN_CELLS 1-2 where cell 1 has an
// exchanger related to calcite (CaX2 Calcite equilibrium_phase 0.05) and cell 2 an ordinary exchanger (X 0.02) with the same elements
// and phases: cell 2 was taken for the same model and solved with cell 1's coupling between exchanger and calcite - its exchanger lost
// 8.9e-5 mol of sites and the cell 4.5e-5 mol of Ca (rel. 4e-4); run alone, cell 2 conserves.  cwd = /repo/database.
// exit 1 when the sites of the ordinary exchanger of cell 2 change.
#include "IPhreeqc.hpp"
#include <cstdio>
#include <cmath>
static double val(IPhreeqc& p, int r, int c){ VAR v; VarInit(&v); p.GetSelectedOutputValue(r,c,&v); double d = v.type==TT_DOUBLE? v.dVal : (v.type==TT_LONG? (double) v.lVal : NAN); VarClear(&v); return d; }
int main(){
  IPhreeqc p; if (p.LoadDatabase("phreeqc.dat")) return 2;
  const char* def =
   "SOLUTION 1\n pH 6\n Na 10\n Cl 10\n Ca 1\n C(4) 1\nSOLUTION 2\n pH 6.2\n Na 12\n Cl 12\n Ca 1.5\n C(4) 2\nEND\n"
   "EQUILIBRIUM_PHASES 1\n Calcite 0 0.1\nEQUILIBRIUM_PHASES 2\n Calcite 0 0.1\nEND\n"
   "EXCHANGE 1\n CaX2 Calcite equilibrium_phase 0.05\nEXCHANGE 2\n X 0.02\n -equil 2\nEND\n";
  if (p.RunString(def)) { printf("%s\n", p.GetErrorString()); return 2; }
  const char* run =
   "SELECTED_OUTPUT 1\n -reset false\n -high_precision true\nUSER_PUNCH 1\n -headings cell X Ca_sys\n"
   " 10 PUNCH CELL_NO, TOT(\"X\")*TOT(\"water\"), SYS(\"Ca\")\nRUN_CELLS\n -cells 1-2\nEND\n";
  if (p.RunString(run)) { printf("%s\n", p.GetErrorString()); return 2; }
  int bad = 0;
  for (int r = 1; r < p.GetSelectedOutputRowCount(); r++) {
    int cell = (int) val(p, r, 0); double x = val(p, r, 1);
    printf("cell %d: exchanger sites %.10e eq\n", cell, x);
    if (cell == 2 && fabs(x - 0.02) > 1e-8 * 0.02) { printf("FAIL: the ordinary exchanger of cell 2 changed its capacity by %.3e eq\n", x - 0.02); bad++; }
  }
  if (!bad) printf("OK\n");
  return bad ? 1 : 0;
}
