// Replay (C02): -runge_kutta 2 with a solid solution and a constant rate (derived from the seeded-change demo C02-4; scenarios changed).
// C02 demo: closed-system element conservation for a batch-reaction / RUN_CELLS step that
// combines a SOLID_SOLUTIONS assemblage with a KINETICS reactant integrated by the
// Runge-Kutta integrator (the default) when the rate is NOT constant over the step.
//
// Inventories are taken from DUMP -all (RAW blocks), parsed here independently of the
// library, before and after the step:
//      element total = solution totals + sum(ss-component moles * formula) + kinetic m * formula
// Formulas (phreeqc.dat): Calcite CaCO3, Strontianite SrCO3, kinetic reactant formula SrCl2.
//
// exit 0  : every element is conserved to 1e-6 (relative) in every scenario
// exit 1  : some element inventory changed across the step (printed)
// exit 2  : the library reported an error / dump could not be parsed
#include <IPhreeqc.hpp>
#include <cmath>
#include <cstdio>
#include <cstdlib>
#include <iostream>
#include <map>
#include <sstream>
#include <string>
#include <vector>

typedef std::map<std::string, double> Inv;

static std::vector<std::string> tokens(const std::string &line)
{
	std::vector<std::string> t;
	std::istringstream is(line);
	std::string w;
	while (is >> w) t.push_back(w);
	return t;
}

static std::string element_of(const std::string &name)   // "C(4)" -> "C"
{
	std::string::size_type p = name.find('(');
	return p == std::string::npos ? name : name.substr(0, p);
}

// Inventory of cell `n` (solution n, solid_solutions n, equilibrium_phases n, kinetics n) from a RAW dump.
static bool inventory(const std::string &dump, int n, Inv &inv, Inv &reactants)
{
	std::map<std::string, Inv> formula;
	formula["Calcite"]["Ca"] = 1;      formula["Calcite"]["C"] = 1;
	formula["Strontianite"]["Sr"] = 1; formula["Strontianite"]["C"] = 1;
	formula["Srsrc"]["Sr"] = 1;        formula["Srsrc"]["Cl"] = 2;       // -formula SrCl2 1
	formula["Srconst"] = formula["Srsrc"];

	std::istringstream is(dump);
	std::string line, block, comp;
	int number = -999;
	bool in_totals = false, found_solution = false;
	while (std::getline(is, line))
	{
		std::vector<std::string> t = tokens(line);
		if (t.empty()) continue;
		if (line[0] != ' ' && line[0] != '\t')            // new keyword block
		{
			block = t[0];
			number = t.size() > 1 ? atoi(t[1].c_str()) : -999;
			in_totals = false;
			comp.clear();
			if (block == "SOLUTION_RAW" && number == n) found_solution = true;
			continue;
		}
		if (number != n) continue;
		if (block == "SOLUTION_RAW")
		{
			if (t[0] == "-totals") { in_totals = true; continue; }
			if (t[0][0] == '-') { in_totals = false; continue; }
			if (in_totals && t.size() >= 2) inv[element_of(t[0])] += atof(t[1].c_str());
		}
		else if (block == "SOLID_SOLUTIONS_RAW" || block == "EQUILIBRIUM_PHASES_RAW" || block == "KINETICS_RAW")
		{
			if (t[0] == "-component" && t.size() >= 2) { comp = t[1]; continue; }
			const char *key = (block == "KINETICS_RAW") ? "-m" : "-moles";
			if (!comp.empty() && t[0] == key && t.size() >= 2)
			{
				double m = atof(t[1].c_str());
				if (formula.find(comp) == formula.end()) return false;
				reactants[comp] = m;
				for (Inv::iterator it = formula[comp].begin(); it != formula[comp].end(); ++it)
					inv[it->first] += it->second * m;
				comp.clear();
			}
		}
	}
	return found_solution;
}

static int run(IPhreeqc &p, const std::string &input, std::string &dump)
{
	p.SetDumpStringOn(true);
	if (p.RunString(input.c_str()) != 0)
	{
		std::cout << "library error:\n" << p.GetErrorString() << std::endl;
		return 2;
	}
	dump = p.GetDumpString();
	return 0;
}

// returns 0 conserved, 1 violated, 2 error
static int scenario(const char *title, const std::string &define, const std::string &react)
{
	IPhreeqc p;
	p.SetOutputFileOn(false); p.SetErrorFileOn(false); p.SetLogFileOn(false);
	p.SetSelectedOutputFileOn(false); p.SetDumpFileOn(false);
	if (p.LoadDatabase("phreeqc.dat") != 0) { std::cout << p.GetErrorString(); return 2; }

	std::string d0, d1;
	if (run(p, define, d0)) return 2;
	if (run(p, react, d1)) return 2;

	Inv before, after, r0, r1;
	if (!inventory(d0, 1, before, r0) || !inventory(d1, 1, after, r1))
	{
		std::cout << title << ": could not parse dump\n";
		return 2;
	}
	int rc = 0;
	std::cout << "== " << title << "\n";
	for (Inv::iterator it = r1.begin(); it != r1.end(); ++it)
	{
		printf("   reactant %-13s before %.10e  after %.10e\n", it->first.c_str(), r0[it->first], it->second);
		if (it->second < 0) { printf("   NEGATIVE reactant amount\n"); rc = 1; }
	}
	for (Inv::iterator it = before.begin(); it != before.end(); ++it)
	{
		double b = it->second, a = after[it->first];
		double rel = fabs(a - b) / fabs(b);
		bool bad = !(rel <= 1e-6);
		printf("   %-3s before %.10e  after %.10e  rel.diff %.3e %s\n",
			it->first.c_str(), b, a, rel, bad ? "<-- NOT CONSERVED" : "");
		if (bad) rc = 1;
	}
	return rc;
}

int main()
{
	// Every entity is defined in its own simulation (END) so that defining them does not
	// already run a reaction; the reaction step is then requested explicitly with USE / RUN_CELLS.
	const std::string rates =
		"RATES\n"
		" Srsrc\n"                       // first-order in the remaining reactant: rate changes during the step
		" -start\n"
		" 10 rate = 1e-3 * M\n"
		" 20 SAVE rate * TIME\n"
		" -end\n"
		" Srconst\n"                     // constant rate: all Runge-Kutta stages agree
		" -start\n"
		" 10 SAVE 1e-6 * TIME\n"
		" -end\n";
	const std::string solution =
		"SOLUTION 1\n"
		" pH 7.5\n"
		" Ca 2\n"
		" C(4) 4\n"
		" Sr 0.1\n"
		" Cl 1 charge\n"
		"END\n";
	const std::string ss =
		"SOLID_SOLUTIONS 1\n"
		" CaSrCO3\n"
		"  -comp Calcite 0.01\n"
		"  -comp Strontianite 0.001\n"
		"END\n";
	const std::string pp =
		"EQUILIBRIUM_PHASES 1\n"
		" Calcite 0 0.01\n"
		" Strontianite 0 0.001\n"
		"END\n";
	const std::string kin_var =
		"KINETICS 1\n"
		" Srsrc\n"
		"  -formula SrCl2 1\n"
		"  -m 0.002\n"
		"  -tol 1e-8\n"
		"  -steps 1000 in 1 steps\n";
	const std::string kin_const =
		"KINETICS 1\n"
		" Srconst\n"
		"  -formula SrCl2 1\n"
		"  -m 0.002\n"
		"  -tol 1e-8\n"
		"  -steps 1000 in 1 steps\n";
	const std::string dump = "DUMP\n -all\nEND\n";

	const std::string batch =
		"USE solution 1\nUSE solid_solutions 1\nUSE kinetics 1\n"
		"SAVE solution 1\nSAVE solid_solutions 1\n" + dump;
	const std::string cells =
		"RUN_CELLS\n -cells 1\n -time_step 1000\n" + dump;

	int worst = 0, rc;

	rc = scenario("solid solution + kinetics, constant rate, -runge_kutta 2 (equal-rate exit of the 2nd order scheme)",
		rates + solution + ss + kin_const + "  -runge_kutta 2\n" + dump, batch);
	if (rc > worst) worst = rc;

	rc = scenario("control: the same with -runge_kutta 3",
		rates + solution + ss + kin_const + "  -runge_kutta 3\n" + dump, batch);
	if (rc > worst) worst = rc;

	rc = scenario("control: the same with -runge_kutta 1",
		rates + solution + ss + kin_const + "  -runge_kutta 1\n" + dump, batch);
	if (rc > worst) worst = rc;

	rc = scenario("control: pure phases + kinetics, constant rate, -runge_kutta 2",
		rates + solution + pp + kin_const + "  -runge_kutta 2\n" + dump,
		"USE solution 1\nUSE equilibrium_phases 1\nUSE kinetics 1\n"
		"SAVE solution 1\nSAVE equilibrium_phases 1\n" + dump);
	if (rc > worst) worst = rc;

	if (worst == 0) std::cout << "PASS: all element inventories conserved\n";
	else if (worst == 1) std::cout << "FAIL: element inventory not conserved across a reaction step\n";
	else std::cout << "ERROR\n";
	return worst;
}
