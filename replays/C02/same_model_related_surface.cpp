// Replay (pre-fix, see known_findings.json): the surface part of check_same_model() compared only the formulas of the surface components.
// RUN_CELLS 1-2, cell 1 with `Hfo_wOH Fe(OH)3(a) equilibrium_phase 0.2 5.34e4`, cell 2 with an ordinary `Hfo_wOH 2e-4 600 0.1`: cell 2 was
// solved with cell 1's coupling of the sites to the mineral - after convergence warnings its surface had vanished (2.0e-4 -> 3.7e-14 mol
// of sites).  cwd = /repo/database.  exit 1 when the sites of the ordinary surface of cell 2 change.
#include "IPhreeqc.hpp"
#include <cstdio>
#include <cmath>
static double val(IPhreeqc& p, int r, int c){ VAR v; VarInit(&v); p.GetSelectedOutputValue(r,c,&v); double d = v.type==TT_DOUBLE? v.dVal : (v.type==TT_LONG? (double) v.lVal : NAN); VarClear(&v); return d; }
int main(){
  IPhreeqc p; if (p.LoadDatabase("phreeqc.dat")) return 2;
  const char* def =
   "SOLUTION 1\n pH 5\n Na 10\n Cl 10\n Zn 0.01\nSOLUTION 2\n pH 4.5\n Na 12\n Cl 12\n Zn 0.02\nEND\n"
   "EQUILIBRIUM_PHASES 1\n Fe(OH)3(a) 0 0.001\nEQUILIBRIUM_PHASES 2\n Fe(OH)3(a) 0 0.001\nEND\n"
   "SURFACE 1\n Hfo_wOH Fe(OH)3(a) equilibrium_phase 0.2 5.34e4\n -equil 1\nSURFACE 2\n Hfo_wOH 2e-4 600 0.1\n -equil 2\nEND\n";
  if (p.RunString(def)) { printf("%s\n", p.GetErrorString()); return 2; }
  const char* run =
   "SELECTED_OUTPUT 1\n -reset false\n -high_precision true\nUSER_PUNCH 1\n -headings cell Hfo_w\n"
   " 10 PUNCH CELL_NO, TOT(\"Hfo_w\")*TOT(\"water\")\nRUN_CELLS\n -cells 1-2\nEND\n";
  if (p.RunString(run)) { printf("%s\n", p.GetErrorString()); return 2; }
  int bad = 0;
  for (int r = 1; r < p.GetSelectedOutputRowCount(); r++) {
    int cell = (int) val(p, r, 0); double x = val(p, r, 1);
    printf("cell %d: surface sites %.10e mol\n", cell, x);
    if (cell == 2 && fabs(x - 2e-4) > 1e-8 * 2e-4) { printf("FAIL: the ordinary surface of cell 2 changed its sites by %.3e mol\n", x - 2e-4); bad++; }
  }
  if (!bad) printf("OK\n");
  return bad ? 1 : 0;
}
