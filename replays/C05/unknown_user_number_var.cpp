// Replay: GetSelectedOutputValue for an unknown (current) user number fails with VR_INVALIDARG but leaves the caller's VAR
// untouched: it still holds the cell fetched by the previous successful call instead of an error-typed VAR.
// exit 1 = stale / non-error VAR observed.
#include <cstdio>
#include "IPhreeqc.hpp"
int main() {
  IPhreeqc a;
  if (a.LoadDatabase("phreeqc.dat")) return 2;
  if (a.RunString("SOLUTION 1\n Na 1\nSELECTED_OUTPUT 1\n -totals Na\nEND\n")) return 2;
  VAR v; VarInit(&v);
  a.SetCurrentSelectedOutputUserNumber(1);
  VRESULT r1 = a.GetSelectedOutputValue(0, 0, &v);          // heading "sim" (a string)
  printf("user number 1: result %d, type %d\n", r1, v.type);
  a.SetCurrentSelectedOutputUserNumber(77);                  // no such block
  VRESULT r2 = a.GetSelectedOutputValue(0, 0, &v);
  printf("user number 77: result %d (VR_INVALIDARG=%d), VAR type %d (TT_ERROR=%d)%s\n", r2, VR_INVALIDARG, v.type, TT_ERROR,
         v.type == TT_STRING ? " -> still holds the previous cell" : "");
  int bad = !(r2 == VR_INVALIDARG && v.type == TT_ERROR);
  printf(bad ? "RESULT: FAIL\n" : "RESULT: PASS\n");
  return bad;
}
