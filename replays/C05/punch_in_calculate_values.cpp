// Replay (pre-fix, see known_findings.json): a CALCULATE_VALUES program that contains a PUNCH statement, listed under -calculate_values of a block that
// also has a USER_PUNCH.  punch_calculate_values runs it while current_user_punch is set, so its PUNCH wrote a cell with the index left
// by the previous row (-1 in the first row of a simulation: `Get_headings()[-1]`, read out of bounds - std::logic_error escaping the
// run or a column headed ''; later rows: an extra column `no_heading_1` in the table that sits elsewhere in string and file).
// PUNCH belongs to the USER_PUNCH program; anywhere else it has no cell (as in RATES and USER_PRINT).
// cwd = /repo/database.  exit 1 when the table has a column beyond pH, the calculate value and the user punch.
#include "IPhreeqc.hpp"
#include <cstdio>
#include <string>
int main(){
  IPhreeqc p; p.LoadDatabase("phreeqc.dat"); p.SetSelectedOutputStringOn(true);
  int e = -1;
  try {
    e = p.RunString("CALCULATE_VALUES\ncv_na\n -start\n10 PUNCH 99\n20 SAVE TOT(\"Na\")\n -end\nSOLUTION 1\n Na 1\n Cl 1\nSOLUTION 2\n Na 2\n Cl 2\n"
                    "SELECTED_OUTPUT 1\n -reset false\n -pH\n -calculate_values cv_na\nUSER_PUNCH 1\n -headings up\n10 PUNCH 7\nEND\n");
  } catch (const std::exception &x) { printf("exception left RunString: %s\n", x.what()); return 1; }
  int cols = p.GetSelectedOutputColumnCount();
  std::string heads;
  for (int c = 0; c < cols; c++) { VAR a; VarInit(&a); p.GetSelectedOutputValue(0, c, &a); heads += a.type == TT_STRING ? a.sVal : "?"; heads += " | "; VarClear(&a); }
  printf("errors %d, %d columns: %s\n", e, cols, heads.c_str());
  return e == 0 && cols == 3 ? 0 : 1;
}
