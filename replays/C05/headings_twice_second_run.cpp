// Replay: two SELECTED_OUTPUT blocks with file and string sinks on.  On a second Run* call (blocks not redefined) do_run
// re-opens the files one by one and calls tidy_punch() after each; tidy_punch writes headings for every block whose
// new_def flag is set (all of them: do_run forces the flag at the start of a call).  Block 2 therefore gets its heading
// line written twice into its string (once while its file was not yet open), so string and file differ.
// exit 1 = string and file of a block differ.
#include <cstdio>
#include <fstream>
#include <sstream>
#include <string>
#include "IPhreeqc.hpp"
static std::string slurp(const char *fn) { std::ifstream f(fn); std::stringstream s; s << f.rdbuf(); return s.str(); }
int main() {
  IPhreeqc a;
  if (a.LoadDatabase("phreeqc.dat")) return 2;
  a.SetSelectedOutputFileOn(true);
  const char *defs = "SOLUTION 1\n Na 1\n Cl 1\nSELECTED_OUTPUT 1\n -file /tmp/c05_so1.sel\n -reset false\n -totals Na\n"
                     "SELECTED_OUTPUT 2\n -file /tmp/c05_so2.sel\n -reset false\n -totals Cl\nEND\n";
  a.SetCurrentSelectedOutputUserNumber(1); a.SetSelectedOutputFileOn(true); a.SetSelectedOutputStringOn(true);
  if (a.RunString(defs)) { printf("%s\n", a.GetErrorString()); return 2; }
  a.SetCurrentSelectedOutputUserNumber(1); a.SetSelectedOutputFileOn(true); a.SetSelectedOutputStringOn(true); a.SetSelectedOutputFileName("/tmp/c05_so1.sel");
  a.SetCurrentSelectedOutputUserNumber(2); a.SetSelectedOutputFileOn(true); a.SetSelectedOutputStringOn(true); a.SetSelectedOutputFileName("/tmp/c05_so2.sel");
  if (a.RunString("USE solution 1\nREACTION 1\n NaCl 1\n 1 mmol\nEND\n")) { printf("%s\n", a.GetErrorString()); return 2; }
  int bad = 0;
  for (int n = 1; n <= 2; n++) {
    a.SetCurrentSelectedOutputUserNumber(n);
    std::string s = a.GetSelectedOutputString();
    std::string f = slurp(n == 1 ? "/tmp/c05_so1.sel" : "/tmp/c05_so2.sel");
    printf("block %d: string %zu bytes / %d lines, file %zu bytes%s\n", n, s.size(), a.GetSelectedOutputStringLineCount(), f.size(), s == f ? "" : "  <-- DIFFER");
    if (s != f) { bad++; printf("--- string ---\n%s--- file ---\n%s", s.c_str(), f.c_str()); }
  }
  remove("/tmp/c05_so1.sel"); remove("/tmp/c05_so2.sel");
  printf(bad ? "RESULT: FAIL\n" : "RESULT: PASS\n");
  return bad ? 1 : 0;
}
