// Replay (pre-fix, see known_findings.json): CSelectedOutput::EndRow counted a row only when the table already had a column.  A block whose only
// column comes from a USER_PUNCH program without -headings, `10 IF STEP_NO > 0 THEN PUNCH STEP_NO`, punches nothing for the initial solution:
// string and file have a line for that row, the table none (4 lines, 3 rows).  cwd = /repo/database.  exit 1 when lines != rows.
#include "IPhreeqc.hpp"
#include <cstdio>
int main(){
  IPhreeqc p; p.LoadDatabase("phreeqc.dat"); p.SetSelectedOutputStringOn(true);
  const char *in = "SOLUTION 1\nSELECTED_OUTPUT 1\n -reset false\nUSER_PUNCH 1\n 10 IF STEP_NO > 0 THEN PUNCH STEP_NO\nREACTION 1\n NaCl 1\n 0.001 0.002\nEND\n";
  if (p.RunString(in)) { printf("%s", p.GetErrorString()); return 2; }
  int lines = p.GetSelectedOutputStringLineCount(), rows = p.GetSelectedOutputRowCount();
  printf("selected-output string: %d lines; table: %d rows (heading included)\n", lines, rows);
  return lines == rows ? 0 : 1;
}
