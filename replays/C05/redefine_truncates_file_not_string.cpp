// Replay (C05): re-defining SELECTED_OUTPUT n in a later simulation of the same call re-opens (truncates) the file of block n
// while the string of block n keeps the rows written before the redefinition.  cwd = /repo/database.
#include <cstdio>
#include <cstring>
#include <string>
#include <fstream>
#include <sstream>
#include "IPhreeqc.hpp"
int main()
{
	IPhreeqc h;
	h.LoadDatabase("phreeqc.dat");
	h.SetSelectedOutputFileOn(true);
	h.SetSelectedOutputStringOn(true);
	h.SetSelectedOutputFileName("c05_redefine.sel");
	int rc = h.RunString(
		"SELECTED_OUTPUT 1\n-totals Na\nSOLUTION 1\nNa 1\nEND\n"
		"SELECTED_OUTPUT 1\n-totals Cl\nSOLUTION 2\nCl 2\nNa 2\nEND\n");
	std::string s = h.GetSelectedOutputString();
	std::ifstream f("c05_redefine.sel"); std::stringstream ss; ss << f.rdbuf(); std::string file = ss.str();
	printf("rc=%d\n--- string (%zu bytes)\n%s--- file (%zu bytes)\n%s", rc, s.size(), s.c_str(), file.size(), file.c_str());
	remove("c05_redefine.sel");
	if (s != file) { printf("C05 VIOLATED: selected-output string and file differ\n"); return 1; }
	printf("OK\n");
	return 0;
}
