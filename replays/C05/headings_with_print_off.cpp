// Replay: second Run* call; PRINT -selected_output false in its first simulation, true in its second.  do_run did not
// (re)open the block's file while selected output was off, but tidy_punch still wrote the heading line (into the string only);
// when the file was opened in the second simulation the headings were written again: string 3 lines, file 2 lines.
// exit 1 = string and file differ.
#include <cstdio>
#include <fstream>
#include <sstream>
#include <string>
#include "IPhreeqc.hpp"
static std::string slurp(const char *fn) { std::ifstream f(fn); std::stringstream s; s << f.rdbuf(); return s.str(); }
int main() {
  IPhreeqc a; a.LoadDatabase("phreeqc.dat");
  a.SetSelectedOutputFileOn(true); a.SetSelectedOutputStringOn(true); a.SetSelectedOutputFileName("/tmp/h3.sel");
  a.RunString("SOLUTION 1\n Na 1\nSELECTED_OUTPUT 1\n -file /tmp/h3.sel\n -reset false\n -totals Na\nEND\n");
  a.SetSelectedOutputFileOn(true); a.SetSelectedOutputStringOn(true); a.SetSelectedOutputFileName("/tmp/h3.sel");
  int rc = a.RunString("PRINT\n -selected_output false\nUSE solution 1\nREACTION 1\n NaCl 1\n 1 mmol\nEND\nPRINT\n -selected_output true\nUSE solution 1\nREACTION 1\n NaCl 1\n 2 mmol\nEND\n");
  std::string s = a.GetSelectedOutputString(), f = slurp("/tmp/h3.sel");
  printf("rc=%d\n--- string (%d lines) ---\n%s--- file ---\n%s%s\n", rc, a.GetSelectedOutputStringLineCount(), s.c_str(), f.c_str(), s==f?"SAME":"DIFFER");
  remove("/tmp/h3.sel");
  return s!=f;
}
