// Replay (known finding C05.rowend punch_model): the selected-output line of each inverse model is ended in the string and the file
// (punch_msg("\n")) but not in the value table (no fpunchf_end_row): the string has one line per model, the table only the heading row,
// and the cells of successive models overwrite each other (a later ordinary punch row absorbs them).  cwd = /repo/database.
// exit 1 when the numbers of data rows of table and string differ.  Not repaired: the shipped tests (multi_punch) expect the pending
// inverse cells to land in the following row.
#include "IPhreeqc.hpp"
#include <cstdio>
int main(){
  IPhreeqc p; if (p.LoadDatabase("phreeqc.dat")) return 2;
  p.SetSelectedOutputStringOn(true);
  const char* in =
   "SOLUTION 2\n pH 7 charge\nSOLUTION 3\n pH 7 charge\n Na 1\n Cl 1\nEND\n"
   "INVERSE_MODELING 1\n -solutions 2 3\n -phases\n  Halite\nSELECTED_OUTPUT 1\n -reset false\n -inverse true\nEND\n";
  if (p.RunString(in)) { printf("%s\n", p.GetErrorString()); return 2; }
  int lines = p.GetSelectedOutputStringLineCount(), rows = p.GetSelectedOutputRowCount();
  printf("string lines: %d   table rows: %d\n%s", lines, rows, p.GetSelectedOutputString());
  // the string holds: (blank) heading line written by tidy_punch, the inverse heading line, one line per model
  if (rows != lines - 1) { printf("FAIL: the table has %d data row(s), the string %d model line(s)\n", rows - 1, lines - 2); return 1; }
  printf("OK\n"); return 0;
}
