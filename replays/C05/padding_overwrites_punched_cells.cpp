// Replay (pre-fix, see known_findings.json): IPhreeqc::EndRow pads unpunched USER_PUNCH headings with empty cells; the table is keyed by heading
// name, so with `-headings A B A pH` and `PUNCH 1, 2` in a block that also has -pH the padding of the third and fourth heading replaced the
// values already stored for this row (pH 7, A = 1) by EMPTY, while the string keeps them.  cwd = /repo/database.  exit 1 when a cell is empty.
#include "IPhreeqc.hpp"
#include <cstdio>
int main(){
  IPhreeqc p; p.LoadDatabase("phreeqc.dat"); p.SetSelectedOutputStringOn(true);
  const char *in = "SOLUTION 1\nSELECTED_OUTPUT 1\n -reset false\n -pH true\nUSER_PUNCH 1\n -headings A B A pH\n 10 PUNCH 1, 2\nEND\n";
  if (p.RunString(in)) { printf("%s", p.GetErrorString()); return 2; }
  printf("%s", p.GetSelectedOutputString());
  int bad = 0, nc = p.GetSelectedOutputColumnCount(), last = p.GetSelectedOutputRowCount() - 1;
  for (int c = 0; c < nc; c++) { VAR h, v; VarInit(&h); VarInit(&v); p.GetSelectedOutputValue(0, c, &h); p.GetSelectedOutputValue(last, c, &v);
    printf("table column %s: %s\n", h.sVal, v.type == TT_EMPTY ? "EMPTY" : "value"); if (v.type == TT_EMPTY) bad++; VarClear(&h); VarClear(&v); }
  return bad ? 1 : 0;
}
