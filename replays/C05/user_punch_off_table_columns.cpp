// Replay (pre-fix, see known_findings.json): SELECTED_OUTPUT 1 -pH -user_punch false with USER_PUNCH 1 -headings A B: string and file have one
// column (pH); the value table had three (pH, A, B with empty cells) because IPhreeqc::EndRow padded the USER_PUNCH headings without looking at the
// -user_punch switch.  cwd = /repo/database.  exit 1 if the table and the string disagree on the number of columns.
#include "IPhreeqc.hpp"
#include <cstdio>
#include <string>
int main(){
  IPhreeqc p; if (p.LoadDatabase("phreeqc.dat")) return 2;
  p.SetSelectedOutputStringOn(true);
  const char* in = "SOLUTION 1\nSELECTED_OUTPUT 1\n -reset false\n -pH\n -user_punch false\nUSER_PUNCH 1\n -headings A B\n 10 PUNCH 1,2\nEND\n";
  if (p.RunString(in)) { printf("%s\n", p.GetErrorString()); return 2; }
  printf("table: %d rows x %d columns\nstring:\n%s", p.GetSelectedOutputRowCount(), p.GetSelectedOutputColumnCount(), p.GetSelectedOutputString());
  std::string l0 = p.GetSelectedOutputStringLine(0);
  int cols = 0; bool in_tok = false; for (char c : l0) { if (c != ' ' && c != '\t') { if (!in_tok) { cols++; in_tok = true; } } else in_tok = false; }
  printf("string heading cells: %d\n", cols);
  if (cols != p.GetSelectedOutputColumnCount()) { printf("FAIL: table has %d columns, string has %d\n", p.GetSelectedOutputColumnCount(), cols); return 1; }
  printf("OK\n"); return 0;
}
