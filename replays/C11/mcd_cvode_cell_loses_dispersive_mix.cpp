// Replay (pre-fix, see known_findings.json): TRANSPORT with -multi_d true, advection and a dispersivity; cell 3 has a KINETICS reactant with
// -cvode true whose rate is zero.  In the CVODE branch of run_reactions the cell's reaction step was run with NOMIX when multi_Dflag is
// set, while the Runge-Kutta branch (and every cell without kinetics) applies the dispersive mix: cell 3 kept all of its own content
// while its neighbours still took their share from it - Na and Cl were created / lost (up to 1 % of the column inventory per shift).
// Balance checked per shift: inventory(s) = inventory(s-1) - content(cell 6, s-1) + content(inflow solution 0).
// cwd = /repo/database.  exit 1 when the balance is off by more than 1e-9 relative.
#include "IPhreeqc.hpp"
#include <cstdio>
#include <cmath>
#include <vector>
static double val(IPhreeqc& p, int r, int c){ VAR v; VarInit(&v); p.GetSelectedOutputValue(r,c,&v); double d = v.type==TT_DOUBLE? v.dVal : (v.type==TT_LONG? (double) v.lVal : NAN); VarClear(&v); return d; }
int main(int argc, char** argv){
  IPhreeqc p; if (p.LoadDatabase("phreeqc.dat")) return 2;
  std::string in = "RATES\nInert\n-start\n10 SAVE 0\n-end\n";
  for (int i = 1; i <= 6; i++) { char b[128]; snprintf(b, sizeof b, "SOLUTION %d\n Na %d\n Cl %d\n", i, i, i); in += b; }
  in += "SOLUTION 0\n K 5\n Cl 5\nKINETICS 3\nInert\n -formula NaCl 1\n -m0 1\n -cvode ";
  in += (argc > 1 ? argv[1] : "true");
  in += "\nEND\nSELECTED_OUTPUT 1\n -reset false\n -high_precision true\nUSER_PUNCH 1\n -headings cell step Na Cl\n 10 PUNCH CELL_NO, STEP_NO, TOTMOLE(\"Na\"), TOTMOLE(\"Cl\")\n"
        "TRANSPORT\n -cells 6\n -shifts 4\n -flow_direction forward\n -boundary_conditions flux flux\n -lengths 6*0.1\n -dispersivities 6*0.03\n -diffusion_coefficient 0\n"
        " -time_step 3600\n -multi_d true 1e-9 0.3 0.0 1.0\n -punch_cells 1-6\n -punch_frequency 1\nEND\n";
  if (p.RunString(in.c_str())) { printf("%s\n", p.GetErrorString()); return 2; }
  // rows: per shift, cells 1..6
  std::vector<std::vector<double> > na(6, std::vector<double>(8, 0)), cl(6, std::vector<double>(8, 0));
  for (int r = 1; r < p.GetSelectedOutputRowCount(); r++) { int c = (int) val(p, r, 0), s = (int) val(p, r, 1); if (c >= 1 && c <= 6 && s >= 0 && s <= 4) { na[s][c] = val(p, r, 2); cl[s][c] = val(p, r, 3); } }
  double worst = 0;
  for (int s = 1; s <= 4; s++) {
    double i0 = 0, i1 = 0, c0 = 0, c1 = 0;
    for (int c = 1; c <= 6; c++) { i0 += na[s-1][c]; i1 += na[s][c]; c0 += cl[s-1][c]; c1 += cl[s][c]; }
    double dna = i1 - (i0 - na[s-1][6]), dcl = c1 - (c0 - cl[s-1][6] + 5e-3 * (cl[s-1][6] > 0 ? 1 : 1));
    // inflow: solution 0 carries no Na and 5 mmol Cl per cell volume; water per cell is the same, so use cell 6's water implicitly (1 kg)
    printf("shift %d: Na balance %+.3e mol, Cl balance %+.3e mol\n", s, dna, dcl);
    if (fabs(dna) > worst) worst = fabs(dna);
  }
  if (worst > 1e-9 * 2.1e-2) { printf("FAIL: sodium is created / lost in the column (worst %.2e mol)\n", worst); return 1; }
  printf("OK\n"); return 0;
}
