// Replay (pre-fix 87b17c65): closed 3-cell column, diffusion only, multicomponent diffusion.  Cell 1: HCl 0.1 M + 1 mM Ca; cells 2-3: 1 mM
// NaHCO3.  Electromigration leaves a small negative amount of Ca in cells 2 and 3; multi_D covered it from the entries `C(4)` / `C(-4)`
// (prefix match of "Ca" against the stem "C"): the column gained 7.18e-6 mol Ca and LOST 7.18e-6 mol C without any warning.
// With the fix carbon is conserved (1e-17) and the Ca deficit is balanced by the documented, warned addition.  cwd = /repo/database.
// exit 1 when the carbon inventory of the column changes by more than 1e-9 relative.
#include "IPhreeqc.hpp"
#include <cstdio>
#include <cstring>
#include <string>
#include <vector>
int main(int argc,char**argv){
  IPhreeqc p; if (p.LoadDatabase("phreeqc.dat")) return 2;
  std::string s1 = argc>2?argv[2]:" pH 1 charge\n Cl 100\n Ca 1\n";
  std::string in =
   "SOLUTION 1\n"+s1+
   "SOLUTION 2\n pH 7 charge\n Na 1\n C(4) 1\n"
   "SOLUTION 3\n pH 7 charge\n Na 1\n C(4) 1\n"
   "END\n"
   "SELECTED_OUTPUT 1\n -reset false\n -high_precision true\nUSER_PUNCH 1\n -headings Ca C Na Cl\n10 PUNCH TOTMOLE(\"Ca\"), TOTMOLE(\"C\"), TOTMOLE(\"Na\"), TOTMOLE(\"Cl\")\n"
   "TRANSPORT\n -cells 3\n -lengths 0.01\n -shifts 5\n -flow_direction diffusion_only\n -boundary_conditions closed closed\n -time_step ";
  in += (argc>1?argv[1]:"3600");
  in += "\n -multi_d true 1e-9 1 0.0 1.0\n -punch_frequency 5\n"
   "END\n";
  int rc=p.RunString(in.c_str());
  printf("rc=%d\n%s\n", rc, p.GetErrorString());
  const char* w=p.GetWarningString(); const char* q=strstr(w,"Negative"); printf("%s\n", q?q:"(no negative-concentration warning)");
  int R=p.GetSelectedOutputRowCount(), C=p.GetSelectedOutputColumnCount();
  std::vector<double> a(C,0),b(C,0);
  for(int r=1;r<R;r++) for(int c=0;c<C;c++){VAR v;VarInit(&v);p.GetSelectedOutputValue(r,c,&v); double d=v.type==TT_DOUBLE?v.dVal:0; if(r<=3)a[c]+=d; else b[c]+=d; printf("%.10e%s",d,c==C-1?"\n":" ");VarClear(&v);}
  for(int c=0;c<C;c++) printf("col %d inventory before %.12e after %.12e  diff %.3e\n",c,a[c],b[c],b[c]-a[c]);
  double rel=(b[1]-a[1])/a[1]; if (rel<0) rel=-rel;
  if (rel>1e-9) { printf("FAIL: carbon inventory changed by %.3e relative (Ca deficit booked on C)\n", rel); return 1; }
  printf("OK: carbon conserved\n"); return 0;
}
