// Replay (pre-fix, see known_findings.json): 3 mobile cells at 10 C and 3 stagnant cells at 60 C, identical 1 mM NaCl and 1 kg water each, closed
// column, diffusion only, `-thermal_diffusion 1 1e-6`, `-stagnant 1 6.8e-6 0.3 0.3`.  mix_stag computed the new temperature of the stagnant
// cell (t_imm) and then overwrote it - `cell_data[k].temp = t_imm = ptr_imm->Get_tc();` - so only the mobile cell changed temperature:
// heat was created, after 6 shifts the mobile cells stood at 56.45 C and the stagnant ones at 56.75 C.  With equal heat capacities both
// must approach the mean, 35 C, and the mean temperature of the six cells must stay 35 C.
// cwd = /repo/database.  exit 1 when the mean temperature of the column moved by more than 0.01 C.
#include "IPhreeqc.hpp"
#include <cmath>
#include <cstdio>
int main(){
  IPhreeqc p; p.LoadDatabase("phreeqc.dat");
  const char *in = "SOLUTION 1-3\n temp 10\n Na 1\n Cl 1\nSOLUTION 5-7\n temp 60\n Na 1\n Cl 1\nEND\nSELECTED_OUTPUT 1\n -reset false\n -solution true\n -temperature true\n"
                   "TRANSPORT\n -cells 3\n -shifts 6\n -flow_direction diffusion_only\n -boundary_conditions closed closed\n -lengths 3*0.1\n -diffusion_coefficient 1e-9\n"
                   " -thermal_diffusion 1 1e-6\n -time_step 3600\n -stagnant 1 6.8e-6 0.3 0.3\n -punch_frequency 6\nEND\n";
  if (p.RunString(in)) { printf("%s", p.GetErrorString()); return 2; }
  int rows = p.GetSelectedOutputRowCount(); double sum = 0; int n = 0;
  for (int r = rows - 6; r < rows; r++) { VAR a; VarInit(&a); p.GetSelectedOutputValue(r, 1, &a); double t = a.type == TT_DOUBLE ? a.dVal : NAN; VarClear(&a); sum += t; n++; printf("%.3f ", t); }
  printf("  mean %.4f C (35 expected)\n", sum / n);
  return fabs(sum / n - 35.0) < 0.01 ? 0 : 1;
}
