// Replay (pre-fix, see known_findings.json): init_mix computed dav = L_i/a_i + L_j/a_j as `if (a_i) dav = ...; if (a_j) dav += ...` without
// resetting dav: for a cell with zero dispersivity the value of the previous pair of cells leaked in, the two mixing factors of one interface
// differed and the column gained or lost moles.  Six cells of 0.1 m, -dispersivities 0.02 0.02 0 0 0.02 0.02, no diffusion, flux/flux,
// 5 mM KCl displaced by 1 mM NaCl: expected after every shift  inventory(s) = inventory(s-1) - content(cell 6, s-1) + content(solution 0).
// Pre-fix residual for K in shift 2: +9.0e-4 mol of a 3e-2 mol inventory.  cwd = /repo/database.  exit 1 when |residual| > 1e-9 mol.
#include "IPhreeqc.hpp"
#include <cmath>
#include <cstdio>
#include <map>
#include <string>
#include <vector>
int main(){
  IPhreeqc p; p.LoadDatabase("phreeqc.dat");
  const char *in =
    "SOLUTION 0\n Na 1\n Cl 1\nSOLUTION 1-6\n K 5\n Cl 5\nEND\n"
    "SELECTED_OUTPUT\n -reset false\n -step true\n -solution true\nUSER_PUNCH\n -headings Na K Cl\n 10 PUNCH TOTMOLE(\"Na\"), TOTMOLE(\"K\"), TOTMOLE(\"Cl\")\n"
    "TRANSPORT\n -cells 6\n -lengths 6*0.1\n -dispersivities 0.02 0.02 0 0 0.02 0.02\n -shifts 4\n -flow_direction forward\n -boundary_conditions flux flux\n"
    " -diffusion_coefficient 0\n -time_step 1\n -punch_cells 0-6\n -punch_frequency 1\nEND\n";
  if (p.RunString(in)) { printf("%s", p.GetErrorString()); return 2; }
  int nr = p.GetSelectedOutputRowCount(), nc = p.GetSelectedOutputColumnCount();
  std::map<int, std::map<int, std::vector<double> > > d;   // step -> cell -> (Na, K, Cl)
  int cs = -1, cc = -1, c0 = -1;
  for (int c = 0; c < nc; c++) { VAR v; VarInit(&v); p.GetSelectedOutputValue(0, c, &v); std::string h = v.sVal ? v.sVal : ""; VarClear(&v);
    if (h == "step") cs = c; if (h == "soln") cc = c; if (h == "Na") c0 = c; }
  if (cs < 0 || cc < 0 || c0 < 0) { printf("headings not found\n"); return 2; }
  for (int r = 1; r < nr; r++) { double x[5]; int idx[5] = {cs, cc, c0, c0 + 1, c0 + 2};
    for (int k = 0; k < 5; k++) { VAR v; VarInit(&v); p.GetSelectedOutputValue(r, idx[k], &v); x[k] = v.type == TT_DOUBLE ? v.dVal : (v.type == TT_LONG ? (double) v.lVal : -1); VarClear(&v); }
    if (x[0] < 0) continue;
    d[(int) x[0]][(int) x[1]] = std::vector<double>(x + 2, x + 5); }
  double worst = 0; const char *el[3] = {"Na", "K", "Cl"};
  for (int s = 1; s <= 4; s++) for (int k = 0; k < 3; k++) {
    double inv = 0, pinv = 0; for (int c = 1; c <= 6; c++) { inv += d[s][c][k]; pinv += d[s - 1][c][k]; }
    double res = inv - (pinv - d[s - 1][6][k] + d[0][0][k]);
    printf("shift %d %-2s residual %+.3e mol\n", s, el[k], res); if (fabs(res) > worst) worst = fabs(res); }
  printf("largest |residual| %.3e mol\n", worst);
  return worst > 1e-9 ? 1 : 0;
}
