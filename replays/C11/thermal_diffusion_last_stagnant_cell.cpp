// Replay (pre-fix, see known_findings.json): 3 mobile + 3 stagnant cells, all 25 C except ONE stagnant cell at 60 C, closed column, thermal diffusion on.
// init_heat_mix decides whether heat has to be transported by scanning the cells for a temperature that differs from solution 0; the
// scan of the stagnant cells ran `i < count_cells`, one cell short of the scan of the mobile cells (`i <= count_cells`), so with the hot
// water in the LAST stagnant cell (7) thermal diffusion stayed switched off, while the mirror image (cell 5 hot) was transported.
// cwd = /repo/database.  exit 1 when the two mirror-image columns do not end as mirror images.
#include "IPhreeqc.hpp"
#include <cmath>
#include <cstdio>
#include <string>
static void run(int hot, double t[8]){
  IPhreeqc p; p.LoadDatabase("phreeqc.dat");
  std::string in = "SOLUTION 0-3\n temp 25\n Na 1\n Cl 1\n";
  for (int c = 5; c <= 7; c++) in += "SOLUTION " + std::to_string(c) + "\n temp " + (c == hot ? "60" : "25") + "\n Na 1\n Cl 1\n";
  in += "END\nSELECTED_OUTPUT 1\n -reset false\n -solution true\n -temperature true\nTRANSPORT\n -cells 3\n -shifts 2\n -flow_direction diffusion_only\n -boundary_conditions closed closed\n"
        " -lengths 3*0.1\n -diffusion_coefficient 1e-9\n -thermal_diffusion 1 1e-6\n -time_step 3600\n -stagnant 1 6.8e-6 0.3 0.3\n -punch_cells 1-3 5-7\n -punch_frequency 2\nEND\n";
  p.RunString(in.c_str());
  int rows = p.GetSelectedOutputRowCount();
  for (int r = rows - 6; r < rows; r++) { VAR a; VarInit(&a); p.GetSelectedOutputValue(r, 0, &a); int c = a.type == TT_DOUBLE ? (int) a.dVal : (int) a.lVal; VarClear(&a);
    p.GetSelectedOutputValue(r, 1, &a); t[c] = a.dVal; VarClear(&a); }
}
int main(){
  double a[8] = {0}, b[8] = {0}; run(5, a); run(7, b);
  printf("hot cell 5: cells 1 2 3 = %.2f %.2f %.2f   hot cell 7: cells 3 2 1 = %.2f %.2f %.2f\n", a[1], a[2], a[3], b[3], b[2], b[1]);
  return fabs(a[1] - b[3]) < 0.05 && fabs(a[3] - b[1]) < 0.05 ? 0 : 1;
}
