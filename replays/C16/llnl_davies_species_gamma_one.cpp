// Replay (pre-fix, see known_findings.json): llnl.dat defines LLNL_AQUEOUS_MODEL_PARAMETERS, so calc_dielectrics() returns at once and the
// members DH_A / DH_B stay 0, but gammas() still takes a = DH_A, b = DH_B for the Davies and WATEQ-type species.  Four charged species of
// llnl.dat carry no -llnl_gamma option (Davies by default): Cyanide-, Thiocyanate-, Hf+4, Pm+3.  Their reported log gamma was 0 while the
// Davies equation at the reported constants (BASIC DH_A = 0.5114, MU = 0.0995) gives -0.1074.  cwd = /repo/database.
// exit 1 when LG differs from the Davies equation evaluated at the reported DH_A and MU by more than 1e-9.
#include "IPhreeqc.hpp"
#include <cstdio>
#include <cmath>
static double val(IPhreeqc& p, int r, int c){ VAR v; VarInit(&v); p.GetSelectedOutputValue(r,c,&v); double d = v.type==TT_DOUBLE? v.dVal : NAN; VarClear(&v); return d; }
int main(){
  IPhreeqc p; if (p.LoadDatabase("llnl.dat")) { printf("%s\n", p.GetErrorString()); return 2; }
  const char* in =
   "SOLUTION 1\n temp 25\n units mmol/kgw\n Na 100\n Cl 100\n Cyanide 1\n Thiocyanate 1\n"
   "SELECTED_OUTPUT 1\n -reset false\n -high_precision true\nUSER_PUNCH 1\n -headings mu A lg_CN lg_SCN lg_Na\n"
   " 10 PUNCH MU, DH_A, LG(\"Cyanide-\"), LG(\"Thiocyanate-\"), LG(\"Na+\")\nEND\n";
  if (p.RunString(in)) { printf("%s\n", p.GetErrorString()); return 2; }
  double mu = val(p, 1, 0), A = val(p, 1, 1), lcn = val(p, 1, 2), lscn = val(p, 1, 3);
  double davies = -A * (sqrt(mu) / (1 + sqrt(mu)) - 0.3 * mu);
  printf("MU = %.6f  DH_A = %.4f  LG(Cyanide-) = %.6f  LG(Thiocyanate-) = %.6f  Davies at the reported constants = %.6f\n", mu, A, lcn, lscn, davies);
  if (fabs(lcn - davies) > 1e-9 || fabs(lscn - davies) > 1e-9) { printf("FAIL: the Davies species of llnl.dat do not follow the Davies equation\n"); return 1; }
  printf("OK\n"); return 0;
}
