// Replay (pre-fix, see known_findings.json): sit.dat plus `SIT; -epsilon; CO2 CO2 0.2`; CO2 1.0000 and 1.0025 mol/kgw in 0.5 m NaCl, pH 3.
// sit() added the interaction of two neutral species to both log gammas (m * eps each) but only HALF of m0 * m1 * eps to the osmotic
// sum, so activity coefficients and osmotic coefficient no longer derived from one excess Gibbs energy: along the path
// sum_i m_i d ln(gamma_i) = 2.31e-3 against d[(phi - 1) sum m] = 1.16e-3 (Gibbs-Duhem off by a factor 2; 4e-12 after the repair).
// cwd = /repo/database.  exit 1 when the Gibbs-Duhem relation fails by more than 1e-4 relative.
#include "IPhreeqc.hpp"
#include <cmath>
#include <cstdio>
#include <map>
#include <sstream>
#include <string>
struct Row { double phi, summ; std::map<std::string, std::pair<double, double> > sp; };
int main(){
  IPhreeqc p; if (p.LoadDatabase("sit.dat")) { printf("%s", p.GetErrorString()); return 2; }
  std::string in = "SIT\n -epsilon\n CO2 CO2 0.2\nSELECTED_OUTPUT 1\n -reset false\n -high_precision true\nUSER_PUNCH 1\n -headings phi species\n"
                   " 10 t = SYS(\"aq\", n, n$, t$, c)\n 20 s$ = \"\"\n 30 FOR i = 1 TO n\n 40  s$ = s$ + n$(i) + \" \" + STR_E$(MOL(n$(i)), 25, 16) + \" \" + STR_E$(LG(n$(i)), 25, 16) + \"|\"\n"
                   " 50 NEXT i\n 60 PUNCH OSMOTIC, s$\n"
                   "SOLUTION 1\n -units mol/kgw\n pH 3 charge\n Na 0.5\n Cl 0.5\n C(4) 1.0\nSOLUTION 2\n -units mol/kgw\n pH 3 charge\n Na 0.5\n Cl 0.5\n C(4) 1.0025\nEND\n";
  if (p.RunString(in.c_str())) { printf("%s", p.GetErrorString()); return 2; }
  Row r[2];
  for (int k = 0; k < 2; k++) {
    VAR v; VarInit(&v); p.GetSelectedOutputValue(k + 1, 0, &v); r[k].phi = v.dVal; VarClear(&v);
    p.GetSelectedOutputValue(k + 1, 1, &v); std::string s = v.sVal ? v.sVal : ""; VarClear(&v);
    std::istringstream iss(s); std::string item; r[k].summ = 0;
    while (std::getline(iss, item, '|')) { std::istringstream i2(item); std::string nm; double m, lg; if ((i2 >> nm >> m >> lg) && nm != "H2O") { r[k].sp[nm] = std::make_pair(m, lg); r[k].summ += m; } }
  }
  double lhs = 0;
  for (auto &kv : r[1].sp) { auto it = r[0].sp.find(kv.first); if (it != r[0].sp.end()) lhs += 0.5 * (kv.second.first + it->second.first) * (kv.second.second - it->second.second) * log(10.0); }
  double rhs = (r[1].phi - 1) * r[1].summ - (r[0].phi - 1) * r[0].summ;
  printf("sum m d ln gamma = %.8e   d[(phi-1) sum m] = %.8e   relative difference %.2e\n", lhs, rhs, fabs(lhs - rhs) / fabs(rhs));
  return fabs(lhs - rhs) <= 1e-4 * fabs(rhs) ? 0 : 1;
}
