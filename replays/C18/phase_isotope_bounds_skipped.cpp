// Replay (pre-fix, see known_findings.json): `-isotopes 34S`, phase line `Anhydrite dis 13C 0.0 1.0 34S 13.5 2.0`.  phase_isotope_inequalities left
// the loop over the phase's isotopes (`break`) at the first isotope that is not in the -isotopes list (13C sorts before 34S), so the
// uncertainty bounds of 34S in anhydrite (13.5 +- 2) were never set up: the model `34S Anhydrite 13.5 + 26.5 = 40` was reported
// although the adjustment is 13 times the declared uncertainty.  Without the stray 13C entry no model is found (the control).
// cwd = /repo/database.  exit 1 when the input with the extra isotope finds a model that the control does not.
#include "IPhreeqc.hpp"
#include <cstdio>
#include <cstdlib>
#include <string>
static int models(bool stray){
  IPhreeqc p; p.LoadDatabase("phreeqc.dat"); p.SetOutputStringOn(true);
  std::string in = "SOLUTION 1\n units mmol/kgw\n pH 7.0\n Na 0.5\n Alkalinity 0.5\n Ca 1.0\n S(6) 1.0\n -isotope 34S 10.0 0.5\n"
                   "SOLUTION 2\n units mmol/kgw\n pH 7.0\n Na 0.5\n Alkalinity 0.5\n Ca 2.0\n S(6) 2.0\n -isotope 34S 25.0 0.5\nEND\n"
                   "INVERSE_MODELING 1\n -solutions 1 2\n -uncertainty 0.02\n -isotopes\n  34S\n -balances\n  Na\n -phases\n  Anhydrite dis ";
  in += stray ? "13C 0.0 1.0 34S 13.5 2.0\nEND\n" : "34S 13.5 2.0\nEND\n";
  if (p.RunString(in.c_str())) { printf("%s", p.GetErrorString()); return -1; }
  std::string o = p.GetOutputString(); size_t i = o.find("Number of models found:");
  return i == std::string::npos ? 0 : atoi(o.c_str() + i + 23);
}
int main(){
  int a = models(true), b = models(false);
  printf("models with the unlisted 13C entry on the phase line: %d   without it: %d\n", a, b);
  return a == b ? 0 : 1;
}
