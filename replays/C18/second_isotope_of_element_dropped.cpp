// Replay (pre-fix, see known_findings.json): `-isotopes 13C` and `14C`.  read_inv_isotopes added an isotope to inverse.isotopes only when its
// ELEMENT was new, ignoring the isotope number: 14C was dropped without a message, no 14C balance was set up and a model was reported
// although the 14C data make one impossible (solution 1: 80 +- 1, calcite 0 +- 1, CO2 100 +- 1, solution 2: 80 +- 1 where the mole
// balance needs about 67).  With solution 2 at 67 +- 3 a model exists and must list the 14C adjustments.
// cwd = /repo/database.  exit 1 when the impossible problem has a model or the possible one has no 14C rows.
#include "IPhreeqc.hpp"
#include <cstdio>
#include <cstdlib>
#include <string>
static std::string run(const char *c14){
  IPhreeqc p; p.LoadDatabase("phreeqc.dat"); p.SetOutputStringOn(true);
  std::string in = "SOLUTION 1\n units mmol/kgw\n pH 7.5\n Ca 1.0\n Alkalinity 2.0\n -isotope 13C -10.0 0.5\n -isotope 14C 80.0 1.0\n"
                   "SOLUTION 2\n units mmol/kgw\n pH 7.3\n Ca 2.0\n Alkalinity 4.0\n -isotope 13C -12.0 0.5\n -isotope 14C ";
  in += c14;
  in += "\nEND\nINVERSE_MODELING 1\n -solutions 1 2\n -uncertainty 0.03\n -isotopes\n  13C\n  14C\n -phases\n  Calcite dis 13C 0.0 1.0 14C 0.0 1.0\n  CO2(g) dis 13C -25.0 1.0 14C 100.0 1.0\nEND\n";
  p.RunString(in.c_str());
  return p.GetOutputString();
}
static int models(const std::string &o){ size_t i = o.find("Number of models found:"); return i == std::string::npos ? 0 : atoi(o.c_str() + i + 23); }
int main(){
  std::string a = run("80.0 1.0"), b = run("67.0 3.0");
  bool rows = b.find("14C Calcite") != std::string::npos;
  printf("14C of solution 2 = 80 +- 1 (impossible): %d model(s)\n14C of solution 2 = 67 +- 3 (possible)  : %d model(s), 14C rows %s\n", models(a), models(b), rows ? "listed" : "MISSING");
  return models(a) == 0 && models(b) >= 1 && rows ? 0 : 1;
}
