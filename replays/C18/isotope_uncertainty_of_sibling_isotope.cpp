// Replay (pre-fix, see known_findings.json): `-isotopes 13C 0.05 0.05` and `14C 9.0`.  check_isotopes chose the uncertainties for a solution isotope
// by matching the ELEMENT of the -isotopes entry only (master pointers), never the isotope number, and kept the last match: the 14C
// uncertainty 9.0 became the uncertainty of 13C, and a model was reported with a 13C adjustment of -0.315 permil where 0.05 is declared.
// With 13C alone (same 0.05) no model exists.  cwd = /repo/database.  exit 1 when a model is reported.
#include "IPhreeqc.hpp"
#include <cstdio>
#include <cstdlib>
#include <string>
int main(){
  IPhreeqc p; p.LoadDatabase("phreeqc.dat"); p.SetOutputStringOn(true);
  p.RunString("SOLUTION 1\n units mmol/kgw\n pH 7.5\n Ca 2.0\n Na 1.0\n Cl 1.2231\n C(4) 4.0\n -isotope 13C -10.0 0.1\n -isotope 14C 80.0 1.0\n"
              "SOLUTION 2\n units mmol/kgw\n pH 7.1263\n Ca 1.5\n Na 1.0\n Cl 1.2231\n C(4) 3.2\n -isotope 13C -10.3 0.1\n -isotope 14C 83.0 1.0\n"
              "INVERSE_MODELING 1\n -solutions 1 2\n -uncertainty 0.01\n -balances\n  Na\n  Cl\n -isotopes\n  13C 0.05 0.05\n  14C 9.0\n -phases\n"
              "  Calcite pre 14C 75.0 5.0 13C -8.0 1.0\n  CO2(g) pre 13C -17.0 1.0 14C 70.0 5.0\nEND\n");
  std::string o = p.GetOutputString(); size_t i = o.find("Number of models found:"); int n = i == std::string::npos ? -1 : atoi(o.c_str() + i + 23);
  size_t k = o.find("13C(4)"); std::string line = k == std::string::npos ? "" : o.substr(k, o.find('\n', k) - k);
  printf("models found: %d   %s\n", n, line.c_str());
  return n == 0 ? 0 : 1;
}
