// Replay (pre-fix, see known_findings.json): `-isotopes 34S` while S is neither in -balances nor in a phase.  isotope_balance_equation looks the
// element's column up with `for (k ...) if (master == elts[k].master) break;` and used k without testing that the search had found
// anything: with k == elts.size() the column `col_epsilon + k * count_solns + i` is the pH column, so the 34S balance was absorbed by a
// pH adjustment (-8.3e-5) and a model was reported whose 34S balance is off by ten times the allowed slack (10 and 12 permil, +- 0.1).
// cwd = /repo/database.  exit 1 when a model is reported.
#include "IPhreeqc.hpp"
#include <cstdio>
#include <cstdlib>
#include <string>
int main(){
  IPhreeqc p; p.LoadDatabase("phreeqc.dat"); p.SetOutputStringOn(true);
  p.RunString("SOLUTION 1\n units mmol/kgw\n pH 7.5\n Ca 2.0\n Na 1.0\n Cl 1.2231\n C(4) 4.0\n S(6) 1.0\n -isotope 34S 10.0 0.1\n"
              "SOLUTION 2\n units mmol/kgw\n pH 7.1263\n Ca 1.5\n Na 1.0\n Cl 1.2231\n C(4) 3.2\n S(6) 1.0\n -isotope 34S 12.0 0.1\n"
              "INVERSE_MODELING 1\n -solutions 1 2\n -uncertainty 0.01\n -balances\n  Na\n  Cl\n -isotopes\n  34S\n -phases\n  Calcite pre\n  CO2(g) pre\nEND\n");
  std::string o = p.GetOutputString(); size_t i = o.find("Number of models found:"); int n = i == std::string::npos ? -1 : atoi(o.c_str() + i + 23);
  printf("models found: %d (0 expected: 34S is 10 +- 0.1 in solution 1 and 12 +- 0.1 in solution 2, nothing else carries sulfur)\n", n);
  return n == 0 ? 0 : 1;
}
