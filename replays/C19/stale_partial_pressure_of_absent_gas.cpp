// Replay (pre-fix, see known_findings.json): a fixed-pressure gas phase (1 atm) `CO2(g) 0.5, CH4(g) 0.5, N2(g) 0` over a solution without N is
// calculated (A), then another gas phase with N2 at 0.5 atm (B), then A again (C).  build_gas_phase sums phase::p_soln_x of EVERY
// listed gas into the pressure equation; calc_gas_pressures reset moles and fraction of a gas that is not in the model but not its
// p_soln_x, so in C the N2 pressure of calculation B (0.68 atm) was still in the sum: the phase was held at "1 atm" with CO2 + CH4
// at 0.32 atm, total moles 0.1111 instead of 0.0290, and fugacity(CO2) != 10^SI(CO2) by a factor 3.1.  (With the text output on,
// print_gas_phase happened to clear the value afterwards, so results depended on the output switch.)
// cwd = /repo/database.  exit 1 when the repeated calculation differs from the first.
#include "IPhreeqc.hpp"
#include <cmath>
#include <cstdio>
static double total_moles(IPhreeqc &p){ int r = p.GetSelectedOutputRowCount() - 1; VAR a; VarInit(&a); p.GetSelectedOutputValue(r, 0, &a); double v = a.type == TT_DOUBLE ? a.dVal : NAN; VarClear(&a); return v; }
int main(){
  IPhreeqc p; p.LoadDatabase("phreeqc.dat");
  p.RunString("SOLUTION 1\n temp 25\n pH 7\n Na 100\n Cl 100\nSELECTED_OUTPUT 1\n -reset false\n -high_precision true\nUSER_PUNCH 1\n -headings n fug si\n"
              " 10 PUNCH GAS(\"CO2(g)\") + GAS(\"CH4(g)\") + GAS(\"N2(g)\"), PR_P(\"CO2(g)\")*PR_PHI(\"CO2(g)\"), 10^SI(\"CO2(g)\")\nEND\n");
  const char *A = "GAS_PHASE 1\n -fixed_pressure\n -pressure 1\n -volume 1\n CO2(g) 0.5\n CH4(g) 0.5\n N2(g) 0\nUSE solution 1\nUSE gas_phase 1\nEND\n";
  p.RunString(A); double nA = total_moles(p);
  p.RunString("GAS_PHASE 2\n -fixed_pressure\n -pressure 1\n -volume 1\n CO2(g) 0.5\n N2(g) 0.5\nUSE solution 1\nUSE gas_phase 2\nEND\n");
  p.RunString(A); double nC = total_moles(p);
  printf("moles of gas: first calculation %.7f, the same input after a calculation with N2 %.7f\n", nA, nC);
  return fabs(nA - nC) < 1e-9 ? 0 : 1;
}
