// Replay (pre-fix, see known_findings.json): calc_PR stored the molar volume it computed in the GAS_PHASE in use, also when it was called for a
// gas of EQUILIBRIUM_PHASES: `EQUILIBRIUM_PHASES CO2(g) 1.3` (20 atm, Peng-Robinson) next to an ideal fixed-pressure GAS_PHASE of two user-defined
// gases without critical constants made the gas phase report volume 0.0879 L and GAS_VM 1.082 L/mol instead of nRT/P = 0.9943 L and 12.23 L/mol.
// cwd = /repo/database.  exit 1 when the reported volume is not n R T / P within 1e-6.
#include "IPhreeqc.hpp"
#include <cmath>
#include <cstdio>
int main(){
  IPhreeqc p; p.LoadDatabase("phreeqc.dat");
  const char *in = "PHASES\nXn2(g)\n Ntg = Ntg\n -log_k -3.1864\nXar(g)\n Hdg = Hdg\n -log_k -3.0\nSOLUTION 1\n temp 25\n pH 7\n Na 10\n Cl 10\n Ntg 1\nEND\nUSE solution 1\n"
                   "GAS_PHASE 1\n -fixed_pressure\n -pressure 2\n -volume 1\n Xn2(g) 1.5\n Xar(g) 0.5\nEQUILIBRIUM_PHASES 1\n CO2(g) 1.3 10\n"
                   "SELECTED_OUTPUT 1\n -reset false\n -high_precision\n -gases Xn2(g) Xar(g)\nUSER_PUNCH 1\n -headings vm nrtp\n 10 PUNCH GAS_VM, (GAS(\"Xn2(g)\")+GAS(\"Xar(g)\"))*0.0820597*TK/GAS_P\nEND\n";
  if (p.RunString(in)) { printf("%s", p.GetErrorString()); return 2; }
  int last = p.GetSelectedOutputRowCount() - 1, nc = p.GetSelectedOutputColumnCount(); double v[16];
  for (int c = 0; c < nc && c < 16; c++) { VAR a; VarInit(&a); p.GetSelectedOutputValue(last, c, &a); v[c] = a.type == TT_DOUBLE ? a.dVal : 0; VarClear(&a); }
  double volume = v[2], nrtp = v[nc - 1], vm = v[nc - 2];
  printf("reported volume %.6f L, GAS_VM %.4f L/mol; n R T / P = %.6f L\n", volume, vm, nrtp);
  return fabs(volume / nrtp - 1) > 1e-6 ? 1 : 0;
}
