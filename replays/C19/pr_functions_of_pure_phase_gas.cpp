// Replay (pre-fix, see known_findings.json): CH4(g) as EQUILIBRIUM_PHASES (SI 1.5) together with a GAS_PHASE of CO2(g) and N2(g), 50 C.
// SI("CH4(g)") = 1.4772 = 1.5 + log10(phi), i.e. the calculation used phi = 0.949 and P = 31.6 atm, but PR_P("CH4(g)") returned 0 and
// PR_PHI("CH4(g)") 1: in pr_pressure / pr_phi the pure-phase branch was the `else` of `if (gas phase in use)`, so a gas that is not a
// component of the gas phase in use fell through to the defaults.  Without the GAS_PHASE the functions return 31.62 and 0.949.
// cwd = /repo/database.  exit 1 when fugacity phi * P differs from 10^SI.
#include "IPhreeqc.hpp"
#include <cmath>
#include <cstdio>
int main(){
  IPhreeqc p; p.LoadDatabase("phreeqc.dat");
  const char *in = "SELECTED_OUTPUT 1\n -reset false\n -high_precision\nUSER_PUNCH 1\n -headings p phi si\n 10 PUNCH PR_P(\"CH4(g)\"), PR_PHI(\"CH4(g)\"), SI(\"CH4(g)\")\n"
                   "SOLUTION 1\n temp 50\n Na 100\n Cl 100\nEND\nUSE solution 1\nGAS_PHASE 1\n -fixed_volume\n -volume 0.5\n -temperature 50\n CO2(g) 30\n N2(g) 10\n"
                   "EQUILIBRIUM_PHASES 1\n CH4(g) 1.5 10\nEND\n";
  if (p.RunString(in)) { printf("%s", p.GetErrorString()); return 2; }
  int last = p.GetSelectedOutputRowCount() - 1; double v[3];
  for (int c = 0; c < 3; c++) { VAR a; VarInit(&a); p.GetSelectedOutputValue(last, c, &a); v[c] = a.type == TT_DOUBLE ? a.dVal : NAN; VarClear(&a); }
  printf("PR_P = %.5f  PR_PHI = %.6f  SI = %.6f   phi*P = %.4f  10^SI = %.4f\n", v[0], v[1], v[2], v[0] * v[1], pow(10.0, v[2]));
  return fabs(v[0] * v[1] - pow(10.0, v[2])) < 1e-3 * pow(10.0, v[2]) ? 0 : 1;
}
