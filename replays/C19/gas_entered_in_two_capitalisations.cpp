// Replay (pre-fix, see known_findings.json): `GAS_PHASE 1; -fixed_volume; -volume 0.5; CO2(g) 20; co2(g) 10; N2(g) 10` at 50 C.  The reader merged
// repeated gas lines through a map keyed by the name as typed, so the two spellings stayed two components of the one phase: its moles and
// partial pressure were counted twice in the totals - total moles 0.4996 against g_CO2 + g_N2 = 0.3522, reported pressure 25.03 atm
// against PR_P(CO2) + PR_P(N2) = 17.65 atm: the partial pressures no longer summed to the total.  A repeated line in the SAME
// capitalisation has always replaced the earlier one; any capitalisation does now.
// cwd = /repo/database.  exit 1 when the partial pressures do not sum to the total pressure (relative 1e-6).
#include "IPhreeqc.hpp"
#include <cmath>
#include <cstdio>
int main(){
  IPhreeqc p; p.LoadDatabase("phreeqc.dat");
  const char *in = "SELECTED_OUTPUT 1\n -reset false\n -high_precision\nUSER_PUNCH 1\n -headings P pco2 pn2\n 10 PUNCH GAS_P, PR_P(\"CO2(g)\"), PR_P(\"N2(g)\")\n"
                   "SOLUTION 1\n temp 50\n Na 100\n Cl 100\nGAS_PHASE 1\n -fixed_volume\n -volume 0.5\n -temperature 50\n CO2(g) 20\n co2(g) 10\n N2(g) 10\nEND\n";
  if (p.RunString(in)) { printf("%s", p.GetErrorString()); return 2; }
  int last = p.GetSelectedOutputRowCount() - 1; double v[3];
  for (int c = 0; c < 3; c++) { VAR a; VarInit(&a); p.GetSelectedOutputValue(last, c, &a); v[c] = a.type == TT_DOUBLE ? a.dVal : NAN; VarClear(&a); }
  printf("total pressure %.5f atm; partial pressures CO2 %.5f + N2 %.5f = %.5f atm\n", v[0], v[1], v[2], v[1] + v[2]);
  return fabs(v[1] + v[2] - v[0]) < 1e-6 * v[0] ? 0 : 1;
}
