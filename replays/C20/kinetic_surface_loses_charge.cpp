// Replay (pre-fix, see known_findings.json): a surface related to a kinetic reactant, equilibrated and saved, is re-scaled by update_kin_surface
// whenever a later simulation has a KINETICS or SURFACE keyword.  The function read the grams of the charge structure with
// `charge_ptr->Get_grams();` and discarded the result, so `grams` stayed 0 and the "generate from scratch" branch ran:
// Set_charge_balance(0.0) on an equilibrated surface.  Re-entering an IDENTICAL KINETICS 1 block before the batch reaction moved the pH from
// 5.000 to 6.889 and the solution charge balance to -1.09e-5 (the surface charge had been thrown away).
// cwd = /repo/database.  exit 1 when the run with the repeated block differs from the run without it.
#include "IPhreeqc.hpp"
#include <cmath>
#include <cstdio>
#include <string>
static double run(bool repeat, double *cb){
  IPhreeqc p; p.LoadDatabase("phreeqc.dat");
  std::string kin = "KINETICS 1\n Ferri\n  -formula FeOOH 1\n  -m 1e-3\n  -m0 1e-3\n -steps 1\n";
  std::string in = "SELECTED_OUTPUT 1\n -reset false\nUSER_PUNCH 1\n -headings pH cb\n 10 PUNCH -LA(\"H+\"), CHARGE_BALANCE\n"
                   "RATES\nFerri\n -start\n 10 SAVE 0\n -end\nSOLUTION 1\n pH 5\n Na 10\n Cl 10 charge\n" + kin +
                   "SURFACE 1\n -equilibrate 1\n Hfo_wOH Ferri kinetic 0.2 5.34e4\n Hfo_sOH Ferri kinetic 0.005\nSAVE surface 1\nEND\n" +
                   (repeat ? kin : std::string()) + "USE solution 1\nUSE surface 1\nUSE kinetics 1\nEND\n";
  if (p.RunString(in.c_str())) { printf("%s", p.GetErrorString()); return NAN; }
  int last = p.GetSelectedOutputRowCount() - 1; VAR a; VarInit(&a); double v[2] = {NAN, NAN};
  for (int c = 0; c < 2; c++) { p.GetSelectedOutputValue(last, c, &a); if (a.type == TT_DOUBLE) v[c] = a.dVal; VarClear(&a); }
  *cb = v[1]; return v[0];
}
int main(){
  double cb0, cb1, ph0 = run(false, &cb0), ph1 = run(true, &cb1);
  printf("without the repeated KINETICS block: pH %.4f  charge balance %.3e\nwith the identical block repeated  : pH %.4f  charge balance %.3e\n", ph0, cb0, ph1, cb1);
  return fabs(ph0 - ph1) < 1e-6 && fabs(cb0 - cb1) < 1e-10 ? 0 : 1;
}
