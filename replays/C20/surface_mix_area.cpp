// Replay (pre-fix, see known_findings.json): SURFACE_MIX 3 = 1.0 * SURFACE 1 (600 m2/g, 0.1 g = 60 m2) + 1.0 * SURFACE 2 (100 m2/g, 0.1 g = 10 m2).
// cxxSurfaceCharge::add summed the grams (0.2 g) but took the AREA-weighted mean of the specific areas (528.6 m2/g): the mixture had
// 105.7 m2 instead of 70 m2, so sigma = q F / (A g) of the mixed surface belonged to an area that neither part had.
// cwd = /repo/database.  exit 1 when the area of the mixture differs from the sum of the areas.
#include "IPhreeqc.hpp"
#include <cmath>
#include <cstdio>
#include <cstdlib>
#include <string>
static double field(const std::string &d, size_t from, const char *key){
  size_t i = d.find(key, from); return i == std::string::npos ? NAN : atof(d.c_str() + i + std::string(key).size());
}
int main(){
  IPhreeqc p; p.LoadDatabase("phreeqc.dat"); p.SetDumpStringOn(true);
  int e = p.RunString("SOLUTION 1\n pH 5\n Na 10\n Cl 10 charge\nSURFACE 1\n -equilibrate 1\n Hfo_wOH 2e-4 600 0.1\nSURFACE 2\n -equilibrate 1\n Hfo_wOH 2e-4 100 0.1\nEND\n"
                      "SURFACE_MIX 3\n 1 1\n 2 1\nEND\nDUMP\n -surface 3\nEND\n");
  if (e) { printf("%s", p.GetErrorString()); return 2; }
  std::string d = p.GetDumpString(); size_t i = d.find("-charge_component");
  double sa = field(d, i, "-specific_area"), g = field(d, i, "-grams");
  printf("mixture: specific area %.4f m2/g * %.4f g = %.4f m2   (parts: 60 + 10 = 70 m2)\n", sa, g, sa * g);
  return fabs(sa * g - 70.0) < 1e-9 ? 0 : 1;
}
