// Replay of finding F2 (C06): file-scope mutable variables in src/phreeqcpp/transport.cpp are shared by all instances.
// Two threads each run a multicomponent-diffusion TRANSPORT on their own IPhreeqc instance.  ThreadSanitizer reports
// data races on ct / current_cells / cell_J_ij / ... ; without TSan the run may crash or give different results.
#include "IPhreeqc.hpp"
#include <cstdio>
#include <string>
#include <thread>
static const char *INPUT =
    "SOLUTION 0\n Na 1\n Cl 1\nSOLUTION 1-4\n K 1\n Cl 1\nEND\n"
    "TRANSPORT\n -cells 4\n -shifts 3\n -lengths 0.01\n -time_step 100\n -boundary_conditions constant closed\n"
    " -flow_direction diffusion_only\n -multi_d true 1e-9 0.3 0.05 1.0\nEND\n";
static void work(const char *db, int *rc) {
  IPhreeqc p;
  if (p.LoadDatabase(db) != 0) { *rc = -1; return; }
  *rc = p.RunString(INPUT);
}
int main(int argc, char **argv) {
  const char *db = argc > 1 ? argv[1] : "/repo/database/phreeqc.dat";
  int r1 = 0, r2 = 0;
  std::thread t1(work, db, &r1), t2(work, db, &r2);
  t1.join(); t2.join();
  std::printf("rc %d %d\n", r1, r2);
  return 0;
}
