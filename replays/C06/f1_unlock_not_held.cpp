// Replay of finding F1 (C06): the 3-statement qsort macro of src/thread.h used as the body of an unbraced `if`.
//   if (master.size() > 1) qsort(...);   expands to   if (c) lock; qsort; unlock;
// With an empty database master.size()==0 in tidy_model: pthread_mutex_unlock(&qsort_lock) is executed although the
// mutex is not held.  Build against a ThreadSanitizer build of the library: TSan reports
// "unlock of an unlocked mutex (or by a wrong thread)".
#include "IPhreeqc.hpp"
#include <cstdio>
int main() {
  IPhreeqc a;
  int rc = a.LoadDatabaseString("SOLUTION_SPECIES\nH+ = H+\n log_k 0\n");       // SOLUTION_SPECIES but no SOLUTION_MASTER_SPECIES: new_model is TRUE and master.size() == 0 in tidy_model
  std::printf("LoadDatabaseString(minimal) = %d\n", rc);
  return 0;
}
