// Replay (pre-fix, see known_findings.json): SURFACE 1 with `-donnan 2e-9 viscosity calc correct_GC true` and `-Donnan_factors 0.5 1.5 0.4 0.9`;
// `SURFACE_MIX 4; 1 1.0` - a mixture that consists of the one surface.  cxxSurface::add copies the options of the first surface mixed
// member by member and left out calc_DDL_viscosity and Donnan_factors: surface 4 had `-calc_DDL_viscosity 0` and no factors, and the
// same solution equilibrated with it had another diffuse-layer composition (EDL Na 2.71e-5 against 3.89e-5, pH 7.000422 against 7.000000).
// cwd = /repo/database.  exit 1 when the cell with the 1.0-mixture differs from the cell with the original surface.
#include "IPhreeqc.hpp"
#include <cmath>
#include <cstdio>
int main(){
  IPhreeqc p; p.LoadDatabase("phreeqc.dat");
  p.RunString("SOLUTION 1\n Na 20\n Cl 10\n Ca 2\n S(6) 7\n O(0) 0.2\nSURFACE 1\n Hfo_w 0.01 600 2\n -donnan 2e-9 viscosity calc correct_GC true\n -Donnan_factors 0.5 1.5 0.4 0.9\n -equilibrate 1\nEND\n"
              "SURFACE_MIX 4\n 1 1.0\nCOPY solution 1 4\nEND\n");
  int e = p.RunString("SELECTED_OUTPUT 1\n -reset false\n -high_precision true\nUSER_PUNCH 1\n -headings na cl\n 10 PUNCH EDL(\"Na\",\"Hfo\"), EDL(\"Cl\",\"Hfo\")\nRUN_CELLS\n -cells 1 4\nEND\n");
  if (e) { printf("%s", p.GetErrorString()); return 2; }
  double v[2][2];
  for (int r = 0; r < 2; r++) for (int c = 0; c < 2; c++) { VAR a; VarInit(&a); p.GetSelectedOutputValue(r + 1, c, &a); v[r][c] = a.type == TT_DOUBLE ? a.dVal : NAN; VarClear(&a); }
  printf("diffuse layer of cell 1 (original surface): Na %.4e Cl %.4e;  cell 4 (SURFACE_MIX of 1.0 x surface 1): Na %.4e Cl %.4e\n", v[0][0], v[0][1], v[1][0], v[1][1]);
  return fabs(v[0][0] - v[1][0]) < 1e-6 * fabs(v[0][0]) && fabs(v[0][1] - v[1][1]) < 1e-6 * fabs(v[0][1]) ? 0 : 1;
}
