// Replay (pre-fix, see known_findings.json): cxxSolution::add weights the intensive properties of the two solutions with their water shares f1, f2;
// Add_isotopes added f2 x (ratio of the added solution) to the ratio already there without multiplying that by f1: SOLUTION_MIX of two
// identical solutions with 13C = -10 permil stored -15, and the result depended on the order of the solution numbers.
// cwd = /repo/database.  exit 1 when the mixture of two identical solutions does not keep the ratio -10.
#include "IPhreeqc.hpp"
#include <cstdio>
#include <cstdlib>
#include <sstream>
#include <string>
int main(){
  IPhreeqc p; p.LoadDatabase("phreeqc.dat"); p.SetDumpStringOn(true);
  const char *in = "SOLUTION 1\n C 2\n Na 2\n -isotope 13C -10 1\nSOLUTION 2\n C 2\n Na 2\n -isotope 13C -10 1\nEND\nSOLUTION_MIX 3\n 1 0.5\n 2 0.5\nEND\nDUMP\n -solution 3\nEND\n";
  if (p.RunString(in)) { printf("%s", p.GetErrorString()); return 2; }
  std::istringstream is(p.GetDumpString()); std::string line; double ratio = 1e99;
  while (std::getline(is, line)) { size_t k = line.find("-ratio "); if (k != std::string::npos && line.find("uncertainty") == std::string::npos) { ratio = atof(line.c_str() + k + 7); break; } }
  printf("13C ratio of the mixture of two identical solutions with -10: %g\n", ratio);
  return (ratio > -10.0001 && ratio < -9.9999) ? 0 : 1;
}
