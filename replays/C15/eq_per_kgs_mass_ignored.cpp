// Replay (pre-fix, see known_findings.json): convert_units sums the mass of the solutes to convert per-kg-solution concentrations to per-kg-water.
// The sum handles g/kgs, g/l, Mol/kgs, Mol/l and eq/l - but not eq/kgs: alkalinity given in meq/kgs contributed no mass.  With density 1 the
// descriptions `units ppm ... Alkalinity 100 meq/kgs` and `units mg/L ... Alkalinity 100 meq/L` are the same solution; they differed by 0.5 % in Na.
// cwd = /repo/database.  exit 1 when the two descriptions differ by more than 1e-8 relative.
#include "IPhreeqc.hpp"
#include <cstdio>
#include <cmath>
static double val(IPhreeqc& p, int r, int c){ VAR v; VarInit(&v); p.GetSelectedOutputValue(r,c,&v); double d = v.type==TT_DOUBLE? v.dVal : NAN; VarClear(&v); return d; }
int main(){
  IPhreeqc p; if (p.LoadDatabase("phreeqc.dat")) return 2;
  const char* in =
   "SELECTED_OUTPUT 1\n -reset false\n -high_precision true\n -totals Na Cl\n -alkalinity true\n"
   "SOLUTION 1\n units ppm\n density 1.0\n pH 8\n Na 10000\n Cl 10000\n Alkalinity 100 meq/kgs\n"
   "SOLUTION 2\n units mg/L\n density 1.0\n pH 8\n Na 10000\n Cl 10000\n Alkalinity 100 meq/L\nEND\n";
  if (p.RunString(in)) { printf("%s\n", p.GetErrorString()); return 2; }
  int bad = 0;
  for (int c = 0; c < p.GetSelectedOutputColumnCount(); c++) {
    double a = val(p, 1, c), b = val(p, 2, c);
    printf("column %d: per kg solution %.10e   per litre at density 1 %.10e   rel. diff %.2e\n", c, a, b, fabs(a - b) / fabs(b));
    if (fabs(a - b) > 1e-8 * fabs(b)) bad++;
  }
  if (bad) { printf("FAIL: equivalent descriptions give different solutions\n"); return 1; }
  printf("OK\n"); return 0;
}
