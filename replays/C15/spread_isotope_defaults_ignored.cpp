// Replay (known finding C15.spreaddefaults iso): the block-level options `-isotope` / `-isotope_uncertainty` of SOLUTION_SPREAD are parsed into
// defaults.iso but spread_row_to_solution never applies them: the spread row has no isotope while the SOLUTION block stating the same option has.
// cwd = /repo/database.  exit 1 when the two descriptions differ.
#include "IPhreeqc.hpp"
#include <cstdio>
#include <cstring>
#include <string>
int main(){
  IPhreeqc p; p.LoadDatabase("phreeqc.dat"); p.SetDumpStringOn(true);
  int rc = p.RunString(
   "SOLUTION 1\n pH 7\n Ca 1\n C 2 charge\n -isotope 13C -10 1\n"
   "SOLUTION_SPREAD\n -isotope 13C -10\n -isotope_uncertainty 13C 1\n Number\tpH\tCa\tC\n \t\t\tcharge\n 2\t7\t1\t2\nEND\nDUMP\n -solution 1 2\nEND\n");
  printf("rc=%d %s\n", rc, p.GetErrorString());
  std::string d=p.GetDumpString();
  size_t a=d.find("SOLUTION_RAW"), b=d.find("SOLUTION_RAW", a+5);
  std::string s1=d.substr(a,b-a), s2=d.substr(b);
  printf("solution 1 (SOLUTION block) has isotopes: %s\nsolution 2 (SOLUTION_SPREAD row) has isotopes: %s\n", strstr(s1.c_str(),"-isotopes")?"yes":"no", strstr(s2.c_str(),"-isotopes")?"yes":"no");
  return (strstr(s1.c_str(),"-isotopes") != NULL) != (strstr(s2.c_str(),"-isotopes") != NULL);
}
