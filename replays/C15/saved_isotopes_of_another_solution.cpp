// Replay (pre-fix, see known_findings.json): xsolution_save stores Phreeqc::isotopes_x with every saved solution, and isotopes_x was set in
// initial_solutions only - to the isotopes of the initial solution calculated last.  `USE solution 1; REACTION ...; SAVE solution 3` stored the
// 13C of solution 2 (-20) with the reacted solution 1 (-10); with the two definitions renumbered it stored the other value.
// cwd = /repo/database.  exit 1 when the saved solution does not carry the ratio of the solution that was used.
#include "IPhreeqc.hpp"
#include <cstdio>
#include <cstdlib>
#include <sstream>
#include <string>
static double ratio_of_saved(const char *in){
  IPhreeqc p; p.LoadDatabase("phreeqc.dat"); p.SetDumpStringOn(true);
  if (p.RunString(in)) { printf("%s", p.GetErrorString()); return 1e99; }
  std::istringstream is(p.GetDumpString()); std::string line;
  while (std::getline(is, line)) { size_t k = line.find("-ratio "); if (k != std::string::npos && line.find("uncertainty") == std::string::npos) return atof(line.c_str() + k + 7); }
  return 1e99;
}
int main(){
  double a = ratio_of_saved("SOLUTION 1\n C 2\n Na 2\n -isotope 13C -10 1\nSOLUTION 2\n C 2\n Na 2\n -isotope 13C -20 1\nEND\nUSE solution 1\nREACTION 1\n NaCl 1\n 0.001\nSAVE solution 3\nEND\nDUMP\n -solution 3\nEND\n");
  double b = ratio_of_saved("SOLUTION 2\n C 2\n Na 2\n -isotope 13C -10 1\nSOLUTION 1\n C 2\n Na 2\n -isotope 13C -20 1\nEND\nUSE solution 2\nREACTION 1\n NaCl 1\n 0.001\nSAVE solution 3\nEND\nDUMP\n -solution 3\nEND\n");
  printf("13C stored with the reacted -10 permil solution: %g (numbered 1), %g (numbered 2)\n", a, b);
  return (a == -10 && b == -10) ? 0 : 1;
}
