// Replay (pre-fix, see known_findings.json): add_mix, negative mixing fraction: the branch for the negative component reset `intensive` but
// not `intensive_water`, the weight actually passed to add_solution, so the weights of the mixed solutions did not sum to one.
// `MIX 1; 1 1.0; 2 -0.1` of two solutions at 25 C gave 22.222 C.  cwd = /repo/database.  exit 1 when the temperature is not 25.
#include "IPhreeqc.hpp"
#include <cmath>
#include <cstdio>
int main(){
  IPhreeqc p; p.LoadDatabase("phreeqc.dat");
  const char *in = "SOLUTION 1\n temp 25\n Na 10\n Cl 10\nSOLUTION 2\n temp 25\n Na 1\n Cl 1\nEND\nSELECTED_OUTPUT 1\n -reset false\n -temperature true\nMIX 1\n 1 1.0\n 2 -0.1\nEND\n";
  if (p.RunString(in)) { printf("%s", p.GetErrorString()); return 2; }
  VAR v; VarInit(&v); p.GetSelectedOutputValue(p.GetSelectedOutputRowCount() - 1, 0, &v);
  double t = v.type == TT_DOUBLE ? v.dVal : -1; VarClear(&v);
  printf("temperature of the mixture of two 25 C solutions: %.12g C\n", t);
  return fabs(t - 25.0) > 1e-8 ? 1 : 0;
}
