// Replay (pre-fix, see known_findings.json): two reachable states whose own DUMP text could not be read back.
//  (1) a solution with isotopes: cxxSolution::dump_raw wrote a bare `-Isotope` line although read_raw requires the isotope name, the nested
//      isotope reader treated the solution's following options as its own, and its completeness check tested the wrong flags: RunString of
//      the dump returned 121 and the solution was not created;
//  (2) a gas phase defined with -equilibrate: the components keep p_read = NAN, dumped as "nan", which `iss >> double` rejects: rc 7.
// Each case: define, DUMP, read the dump into a second instance (must raise no error), dump again (must be the same text).
// cwd = /repo/database.  exit 1 on any read error or when the second dump differs from the first.
#include "IPhreeqc.hpp"
#include <cstdio>
#include <string>
static int roundtrip(const char* name, const char* def, const char* sel){
  IPhreeqc a, b; if (a.LoadDatabase("phreeqc.dat") || b.LoadDatabase("phreeqc.dat")) return 1;
  a.SetDumpStringOn(true); b.SetDumpStringOn(true);
  std::string dumpcmd = std::string("DUMP\n") + sel + "END\n";
  if (a.RunString((std::string(def) + dumpcmd).c_str())) { printf("%s: definition failed\n%s\n", name, a.GetErrorString()); return 1; }
  std::string d1 = a.GetDumpString();
  int rc = b.RunString(d1.c_str());
  if (rc) { printf("%-26s FAIL: reading its own dump returned %d: %s\n", name, rc, b.GetErrorStringLine(0)); return 1; }
  if (b.RunString(dumpcmd.c_str())) { printf("%s: second dump failed\n", name); return 1; }
  std::string d2 = b.GetDumpString();
  if (d1 != d2) { printf("%-26s FAIL: the dump of the restored state differs from the original dump\n", name); return 1; }
  printf("%-26s ok (%d bytes, fixed point)\n", name, (int) d1.size());
  return 0;
}
int main(){
  int bad = 0;
  bad += roundtrip("solution with isotopes", "SOLUTION 1\n Na 10\n Cl 10\n Ca 2\n C 4 charge\n -isotope 13C -12 1\n -isotope 18O -5\nEND\n", " -solution 1\n");
  bad += roundtrip("gas phase -equilibrate", "SOLUTION 1\n C 1\n N 1\nGAS_PHASE 1\n -fixed_volume\n -volume 0.7\n -equilibrate 1\n CO2(g)\n N2(g)\n H2O(g)\nSAVE gas_phase 1\nEND\n", " -gas_phase 1\n");
  return bad ? 1 : 0;
}
