// Replay (pre-fix, see known_findings.json): RAW text lists the element totals of an exchange / surface component on lines without a dash after
// `-totals`; the readers look such lines up in their option table first, case-insensitively, so the line `La 0.0029...` (element lanthanum;
// llnl.dat ships La) was taken for the option -la (log activity) and the La total of the component was dropped without a message.
// DUMP -> fresh instance -> DUMP differed and the follow-up calculation on the restored state gave another pH.
// cwd = /repo/database.  exit 1 when the dump read into a fresh instance dumps differently.
#include "IPhreeqc.hpp"
#include <cstdio>
#include <string>
static const char *defs = "SOLUTION_MASTER_SPECIES\n La  La+3  0  La  138.9\nSOLUTION_SPECIES\n La+3 = La+3\n  log_k 0\nEXCHANGE_SPECIES\n La+3 + 3X- = LaX3\n  log_k 1.1\n"
                          "SURFACE_SPECIES\n Hfo_wOH + La+3 = Hfo_wOLa+2 + H+\n  log_k -1.0\nEND\n";
int main(){
  IPhreeqc a, b; a.LoadDatabase("phreeqc.dat"); b.LoadDatabase("phreeqc.dat"); a.SetDumpStringOn(true); b.SetDumpStringOn(true);
  std::string setup = std::string(defs) + "SOLUTION 1\n pH 6\n Na 10\n Cl 10 charge\n La 0.1\nEXCHANGE 1\n X 0.01\n -equilibrate 1\nSURFACE 1\n Hfo_w 1e-3 600 1\n -equilibrate 1\nEND\nDUMP\n -exchange 1\n -surface 1\nEND\n";
  if (a.RunString(setup.c_str())) { printf("%s", a.GetErrorString()); return 2; }
  std::string d1 = a.GetDumpString();
  if (b.RunString((std::string(defs) + d1 + "DUMP\n -exchange 1\n -surface 1\nEND\n").c_str())) { printf("reading the dump failed:\n%s", b.GetErrorString()); return 1; }
  std::string d2 = b.GetDumpString();
  size_t n1 = 0, n2 = 0, pos = 0;
  while ((pos = d1.find("\n        La ", pos)) != std::string::npos || (pos = std::string::npos, false)) { n1++; pos++; }
  pos = 0; while ((pos = d2.find("\n        La ", pos)) != std::string::npos) { n2++; pos++; }
  printf("dump of the original: %zu bytes; dump of the restored state: %zu bytes; %s\n", d1.size(), d2.size(), d1 == d2 ? "identical" : "DIFFERENT");
  return d1 == d2 ? 0 : 1;
}
