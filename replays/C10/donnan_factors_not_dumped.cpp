// Replay for candidate C10 finding: cxxSurface::Donnan_factors (SURFACE -Donnan_factors z1 z2 z_1 z_2) is user input that
// changes the Donnan double-layer composition (integrate.cpp calc_all_donnan) but is neither written by
// cxxSurface::dump_raw nor read by read_raw.  DUMP -> read back into a second instance -> same follow-up reaction:
// results differ.  Exit 1 = defect reproduced, 0 = restored state behaves like the original.
#include <cstdio>
#include <cmath>
#include <string>
#include "IPhreeqc.hpp"
static const char *DEFS =
  "SURFACE_MASTER_SPECIES\n Su Su-\nSURFACE_SPECIES\n Su- = Su-\n log_k 0\n"
  "SOLUTION 1\n pH 7\n Na 10\n Cl 10 charge\n Ca 1\n"
  "SURFACE 1\n Su 0.0002 100 1\n -donnan 1e-9 viscosity 1 correct_D true\n -Donnan_factors 0.6 0.4 0.9 0.8\n -equilibrate 1\n"
  "SAVE surface 1\nSAVE solution 1\nEND\n";
static const char *FOLLOW =
  "USE solution 1\nUSE surface 1\nREACTION 1\n NaCl 1\n 0.05\n"
  "SELECTED_OUTPUT 1\n -reset false\n -high_precision true\nUSER_PUNCH 1\n -headings Na Ca Cl edlNa edlCa edlCl\n"
  " 10 PUNCH TOT(\"Na\"), TOT(\"Ca\"), TOT(\"Cl\"), EDL(\"Na\",\"Su\"), EDL(\"Ca\",\"Su\"), EDL(\"Cl\",\"Su\")\nEND\n";
int main() {
  IPhreeqc a, b;
  if (a.LoadDatabase("phreeqc.dat") || b.LoadDatabase("phreeqc.dat")) { printf("db\n"); return 2; }
  a.SetDumpStringOn(true);
  std::string in = std::string(DEFS) + "DUMP\n -surface 1\n -solution 1\nEND\n";
  if (a.RunString(in.c_str())) { printf("A: %s\n", a.GetErrorString()); return 2; }
  std::string dump = a.GetDumpString();
  printf("dump mentions Donnan_factors: %s\n", dump.find("onnan_factors") != std::string::npos ? "yes" : "NO");
  std::string inb = "SURFACE_MASTER_SPECIES\n Su Su-\nSURFACE_SPECIES\n Su- = Su-\n log_k 0\nEND\n" + dump + "END\n";
  if (b.RunString(inb.c_str())) { printf("B: %s\n", b.GetErrorString()); return 2; }
  if (a.RunString(FOLLOW) || b.RunString(FOLLOW)) { printf("follow: %s %s\n", a.GetErrorString(), b.GetErrorString()); return 2; }
  int bad = 0;
  for (int c = 0; c < a.GetSelectedOutputColumnCount(); ++c) {
    VAR va, vb, h; VarInit(&va); VarInit(&vb); VarInit(&h);
    a.GetSelectedOutputValue(0, c, &h); a.GetSelectedOutputValue(1, c, &va); b.GetSelectedOutputValue(1, c, &vb);
    double x = va.dVal, y = vb.dVal, rel = fabs(x - y) / (fabs(x) > 1e-300 ? fabs(x) : 1);
    printf("%-8s original %.10e restored %.10e rel %.2e%s\n", h.sVal, x, y, rel, rel > 1e-7 ? "  <-- MISMATCH" : "");
    if (rel > 1e-7) bad++;
  }
  printf(bad ? "RESULT: FAIL (%d columns differ)\n" : "RESULT: PASS\n", bad);
  return bad ? 1 : 0;
}
