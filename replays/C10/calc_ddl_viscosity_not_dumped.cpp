// Replay for candidate C10 finding: cxxSurface::calc_DDL_viscosity (SURFACE -donnan ... viscosity calc) is user input
// that makes the DDL viscosity be calculated from the DDL composition; it is neither dumped nor read back.
// DUMP -> read back into a second instance -> same follow-up: EDL("viscos_DDL", ..) differs.
// Exit 1 = defect reproduced, 0 = restored state behaves like the original.
#include <cstdio>
#include <cmath>
#include <string>
#include "IPhreeqc.hpp"
static const char *DEFS =
  "SURFACE_MASTER_SPECIES\n Su Su-\nSURFACE_SPECIES\n Su- = Su-\n log_k 0\n"
  "SOLUTION 1\n pH 7\n Na 10\n Cl 10 charge\n Ca 1\n"
  "SURFACE 1\n Su 0.0002 100 1\n -donnan 1e-8 viscosity calc\n -equilibrate 1\n"
  "SAVE surface 1\nSAVE solution 1\nEND\n";
static const char *FOLLOW =
  "USE solution 1\nUSE surface 1\nREACTION 1\n NaCl 1\n 0.5\n"
  "SELECTED_OUTPUT 1\n -reset false\n -high_precision true\nUSER_PUNCH 1\n -headings Na Ca viscos_ddl edlNa\n"
  " 10 PUNCH TOT(\"Na\"), TOT(\"Ca\"), EDL(\"viscos_DDL\",\"Su\"), EDL(\"Na\",\"Su\")\nEND\n";
int main() {
  IPhreeqc a, b;
  if (a.LoadDatabase("phreeqc.dat") || b.LoadDatabase("phreeqc.dat")) { printf("db\n"); return 2; }
  a.SetDumpStringOn(true);
  std::string in = std::string(DEFS) + "DUMP\n -surface 1\n -solution 1\nEND\n";
  if (a.RunString(in.c_str())) { printf("A: %s\n", a.GetErrorString()); return 2; }
  std::string dump = a.GetDumpString();
  std::string inb = "SURFACE_MASTER_SPECIES\n Su Su-\nSURFACE_SPECIES\n Su- = Su-\n log_k 0\nEND\n" + dump + "END\n";
  if (b.RunString(inb.c_str())) { printf("B: %s\n", b.GetErrorString()); return 2; }
  if (a.RunString(FOLLOW) || b.RunString(FOLLOW)) { printf("follow: %s %s\n", a.GetErrorString(), b.GetErrorString()); return 2; }
  int bad = 0;
  for (int c = 0; c < a.GetSelectedOutputColumnCount(); ++c) {
    VAR va, vb, h; VarInit(&va); VarInit(&vb); VarInit(&h);
    a.GetSelectedOutputValue(0, c, &h); a.GetSelectedOutputValue(1, c, &va); b.GetSelectedOutputValue(1, c, &vb);
    double x = va.dVal, y = vb.dVal, rel = fabs(x - y) / (fabs(x) > 1e-300 ? fabs(x) : 1);
    printf("%-10s original %.10e restored %.10e rel %.2e%s\n", h.sVal, x, y, rel, rel > 1e-7 ? "  <-- MISMATCH" : "");
    if (rel > 1e-7) bad++;
  }
  printf(bad ? "RESULT: FAIL (%d columns differ)\n" : "RESULT: PASS\n", bad);
  return bad ? 1 : 0;
}
