// Replay: cxxSurface::Serialize/Deserialize round trip loses Donnan_factors (binary-serialisation copy of a SURFACE).
// exit 1 = lost, 0 = preserved
#include <cstdio>
#include <vector>
#include "Surface.h"
#include "Dictionary.h"
int main() {
  cxxSurface s, t;
  s.Donnan_factors.push_back(0.6); s.Donnan_factors.push_back(0.4); s.Donnan_factors.push_back(0.9); s.Donnan_factors.push_back(0.8);
  Dictionary d; std::vector<int> ints; std::vector<double> dbl;
  s.Serialize(d, ints, dbl);
  int ii = 0, dd = 0;
  t.Deserialize(d, ints, dbl, ii, dd);
  printf("original %zu factors, copy %zu factors, stream fully consumed: %s\n", s.Donnan_factors.size(), t.Donnan_factors.size(),
         (ii == (int)ints.size() && dd == (int)dbl.size()) ? "yes" : "NO");
  bool ok = t.Donnan_factors == s.Donnan_factors && ii == (int)ints.size() && dd == (int)dbl.size();
  printf(ok ? "RESULT: PASS\n" : "RESULT: FAIL\n");
  return ok ? 0 : 1;
}
