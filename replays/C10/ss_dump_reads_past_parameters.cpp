// Replay (pre-fix, see known_findings.json): the two-parameter input forms of SOLID_SOLUTIONS (-miscibility_gap, -spinodal_gap, -critical_point,
// -Thompson, -Margules, -alyotropic_point ...) leave cxxSS::p with two elements; cxxSS::dump_raw printed p[0] .. p[3]: an invalid read (valgrind),
// heap garbage in the `-p` line of the dump, and a dump that is not reproduced after reading it back (the reader pads p with zeros).
// cwd = /repo/database.  exit 1 when the `-p` line of the dump has non-zero third / fourth numbers or the second dump differs.
#include "IPhreeqc.hpp"
#include <cstdio>
#include <sstream>
#include <string>
int main(){
  IPhreeqc a, b; a.LoadDatabase("phreeqc.dat"); b.LoadDatabase("phreeqc.dat"); a.SetDumpStringOn(true); b.SetDumpStringOn(true);
  const char *in = "SOLUTION 1\n Ca 1\n Sr 0.1\n C 2\nSOLID_SOLUTIONS 1\n CaSrCO3\n -comp1 Aragonite 0\n -comp2 Strontianite 0\n -miscibility_gap 0.0048 0.8579\nEND\nDUMP\n -solid_solutions 1\nEND\n";
  if (a.RunString(in)) { printf("%s", a.GetErrorString()); return 2; }
  std::string d1 = a.GetDumpString();
  if (b.RunString((d1 + "DUMP\n -solid_solutions 1\nEND\n").c_str())) { printf("%s", b.GetErrorString()); return 1; }
  std::string d2 = b.GetDumpString(), line;
  std::istringstream is(d1); double p[4] = {0, 0, 0, 0};
  while (std::getline(is, line)) if (line.find("-p\t") != std::string::npos || line.find("-p ") != std::string::npos) { std::istringstream ls(line); std::string t; ls >> t >> p[0] >> p[1] >> p[2] >> p[3]; printf("%s\n", line.c_str()); break; }
  printf("dump %s after the round trip\n", d1 == d2 ? "identical" : "DIFFERENT");
  return (p[2] == 0 && p[3] == 0 && d1 == d2) ? 0 : 1;
}
