// Replay (pre-fix, see known_findings.json): `EQUILIBRIUM_PHASES 1; calcite 0 0.1`, then `EQUILIBRIUM_PHASES_MODIFY 1; -component Calcite; -si 0.3`.
// cxxPPassemblage::read_raw finds the component without regard to case, copies it, and stored the modified copy under the NEW spelling:
// the assemblage then held two entries for the one phase (`Calcite` with si 0.3 and `calcite` with si 0), DUMP printed `-component calcite`
// twice, and that text, read back, is a different assemblage (one component) - the dump no longer restores the state.
// cwd = /repo/database.  exit 1 when the MODIFY did not update the existing component in place.
#include "IPhreeqc.hpp"
#include <cstdio>
#include <cstdlib>
#include <string>
int main(){
  IPhreeqc p; p.LoadDatabase("phreeqc.dat"); p.SetDumpStringOn(true);
  p.RunString("SOLUTION 1\n pH 7.2\n Na 10\n Cl 10 charge\n Ca 2\n C(4) 3\nEQUILIBRIUM_PHASES 1\n calcite 0 0.1\nSAVE equilibrium_phases 1\nEND\n");
  int e = p.RunString("EQUILIBRIUM_PHASES_MODIFY 1\n -component Calcite\n  -si 0.3\nEND\nDUMP\n -equilibrium_phases 1\nEND\n");
  if (e) { printf("%s", p.GetErrorString()); return 2; }
  std::string d = p.GetDumpString(); int comps = 0; double si = -99; size_t i = 0;
  while ((i = d.find("-component", i)) != std::string::npos) { comps++; size_t m = d.find("-si ", i); if (m != std::string::npos && comps == 1) si = atof(d.c_str() + m + 4); i += 10; }
  printf("components after the MODIFY: %d (1 expected), si of the first: %g (0.3 expected)\n", comps, si);
  return comps == 1 && si == 0.3 ? 0 : 1;
}
