// Replay: cxxNameDouble::merge_redox derives the element of a valence total "Fe(2)" with substr(0, pos - 1) = "F" instead
// of "Fe", so the existing plain total "Fe" is NOT removed when SOLUTION_MODIFY -totals supplies Fe(2)/Fe(3): the solution
// then carries Fe AND Fe(2)+Fe(3) and the element is counted twice in the next calculation.
// exit 1 = element total after the modify differs from the totals supplied.
#include <cstdio>
#include <cmath>
#include <string>
#include "IPhreeqc.hpp"
int main() {
  IPhreeqc a;
  if (a.LoadDatabase("phreeqc.dat")) return 2;
  a.SetDumpStringOn(true);
  if (a.RunString("SOLUTION 1\n pH 3\n Cl 10 charge\n Fe 1\nEND\n")) { printf("%s\n", a.GetErrorString()); return 2; }
  // 1) a plain element total (the way a transport coupler restores a cell): valence entries are replaced by "Fe"
  if (a.RunString("SOLUTION_MODIFY 1\n -totals\n  Fe 0.001\nEND\n")) { printf("%s\n", a.GetErrorString()); return 2; }
  // 2) per-valence totals: the plain entry must be replaced by Fe(2) + Fe(3) = 0.0025
  if (a.RunString("SOLUTION_MODIFY 1\n -totals\n  Fe(2) 0.002\n  Fe(3) 0.0005\nEND\nDUMP\n -solution 1\nEND\n")) { printf("%s\n", a.GetErrorString()); return 2; }
  std::string d1 = a.GetDumpString();
  size_t p = d1.find("-totals"), q = d1.find("-pH");
  std::string tot = d1.substr(p, q - p);
  printf("totals after the two SOLUTION_MODIFY blocks:\n%s\n", tot.c_str());
  if (a.RunString("SELECTED_OUTPUT 1\n -reset false\n -high_precision\n -totals Fe\nRUN_CELLS\n -cells 1\nEND\n")) { printf("%s\n", a.GetErrorString()); return 2; }
  VAR v; VarInit(&v); a.GetSelectedOutputValue(1, 0, &v);
  double fe = v.dVal;
  printf("Fe(total) used by the next calculation: %.6e mol/kgw (supplied 2.5e-03)\n", fe);
  int bad = fabs(fe - 0.0025) / 0.0025 > 1e-3;   // mol vs mol/kgw differ by the water mass (~3e-5)
  printf(bad ? "RESULT: FAIL\n" : "RESULT: PASS\n");
  return bad;
}
