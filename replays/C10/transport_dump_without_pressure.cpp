// Replay (pre-fix, see known_findings.json): the restart file of `TRANSPORT -dump` is written by cxxStorageBin::dump_raw, which wrote ten kinds
// of entities and forgot REACTION_PRESSURE (cxxStorageBin::read_raw had no REACTION_PRESSURE_RAW case either): a column defined with
// REACTION_PRESSURE 1-4 = 10 atm restarted from its dump file at 1 atm.  cwd = /repo/database (the dump file is written to /tmp and removed).
// exit 1 when the dump file holds no REACTION_PRESSURE_RAW block for the cells.
#include "IPhreeqc.hpp"
#include <cstdio>
#include <fstream>
#include <sstream>
#include <string>
#include <unistd.h>
int main(){
  char name[] = "/tmp/c10_trdump_XXXXXX"; int fd = mkstemp(name); if (fd >= 0) close(fd);
  IPhreeqc p; p.LoadDatabase("phreeqc.dat");
  std::string in = std::string("SOLUTION 0\n Ca 1\n Cl 2\nSOLUTION 1-4\n Na 1\n K 0.2\n Cl 1.2\nEXCHANGE 1-4\n X 0.001\n -equilibrate 1\nREACTION_PRESSURE 1-4\n 10\nREACTION_TEMPERATURE 1-4\n 40\n"
    "TRANSPORT\n -cells 4\n -shifts 4\n -lengths 0.1\n -time_step 100\n -dump ") + name + "\n -dump_frequency 3\nEND\n";
  if (p.RunString(in.c_str())) { printf("%s", p.GetErrorString()); unlink(name); return 2; }
  std::ifstream f(name); std::stringstream ss; ss << f.rdbuf(); std::string d = ss.str(); unlink(name);
  size_t nt = 0, np = 0, pos = 0;
  while ((pos = d.find("REACTION_TEMPERATURE_RAW", pos)) != std::string::npos) { nt++; pos++; }
  pos = 0; while ((pos = d.find("REACTION_PRESSURE_RAW", pos)) != std::string::npos) { np++; pos++; }
  printf("restart file: %zu bytes, %zu REACTION_TEMPERATURE_RAW blocks, %zu REACTION_PRESSURE_RAW blocks\n", d.size(), nt, np);
  // the restart file read by a fresh instance must bring the pressure back
  IPhreeqc q; q.LoadDatabase("phreeqc.dat"); q.SetDumpStringOn(true);
  if (q.RunString(d.c_str())) { printf("restart file not readable:\n%s", q.GetErrorString()); return 1; }
  q.RunString("DUMP\n -pressure 1\nEND\n"); std::string dp = q.GetDumpString();
  bool restored = dp.find("REACTION_PRESSURE_RAW") != std::string::npos;
  printf("fresh instance after reading the restart file: REACTION_PRESSURE 1 %s\n", restored ? "present" : "MISSING");
  return (np >= 4 && restored) ? 0 : 1;
}
