// Replay (pre-fix, see known_findings.json e8f03222): a surface with a diffuse layer (-donnan) and a MIX that names a solution that does not
// exist.  surface_model sums the water mass of the mix components before add_mix has checked them and dereferenced the null result of
// Rxn_find: SIGSEGV.  Without -donnan the same input always ended with "Mix solution not found, 5.".
// cwd = /repo/database.  exit 0 when the call returns with that error.
#include "IPhreeqc.hpp"
#include <cstdio>
#include <cstring>
int main(){
  IPhreeqc p; if (p.LoadDatabase("phreeqc.dat")) return 2;
  int e = p.RunString("SOLUTION 1\nSURFACE 1\n Hfo_w 0.001 600 0.1\n -equil 1\n -donnan\nMIX 1\n 1 0.9\n 5 0.1\nEND\n");
  bool said = strstr(p.GetErrorString(), "Mix solution not found, 5") != NULL;
  printf("errors %d, %s\n", e, said ? "`Mix solution not found, 5.`" : "no such message");
  return e > 0 && said ? 0 : 1;
}
