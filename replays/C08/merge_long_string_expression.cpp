// Replay (pre-fix, see known_findings.json 4383005b): `10 a$ = "<100 x>"` / `20 MERGE a$+a$+a$+a$+a$+a$+a$+a$` in USER_PUNCH (every token is
// shorter than 256 characters).  PBasic::exec passed its 256-character stack array to stringexpr(), which strcpy'd the 800-character
// value of the expression into it: SIGSEGV.  Longer strings now end in a BASIC error.
// cwd = /repo/database.  exit 0 when the call returns with errors.
#include "IPhreeqc.hpp"
#include <cstdio>
#include <cstring>
#include <string>
int main(){
  IPhreeqc p; if (p.LoadDatabase("phreeqc.dat")) return 2;
  std::string in = "SOLUTION 1\nSELECTED_OUTPUT 1\n -reset false\nUSER_PUNCH 1\n -headings g\n 10 a$ = \"" + std::string(100, 'x') +
                   "\"\n 20 MERGE a$+a$+a$+a$+a$+a$+a$+a$\nEND\n";
  int e = p.RunString(in.c_str());
  bool said = strstr(p.GetErrorString(), "String is too long") != NULL;
  printf("errors %d, %s\n", e, said ? "`String is too long.`" : "no such message");
  return e > 0 && said ? 0 : 1;
}
