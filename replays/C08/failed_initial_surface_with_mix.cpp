// Replay (pre-fix, see known_findings.json 1ac3c44c): an initial surface calculation that fails on every convergence setting, in a simulation
// that also holds a MIX block.  set_and_run_wrapper writes the use structure to error.inp through Phreeqc::Use2cxxStorageBin; use.mix_in is
// already set (the block was read) while use.mix_ptr is still NULL, and the function walked mix_ptr->Get_mixComps(): SIGSEGV instead of the
// "Numerical method failed on all combinations of convergence parameters" error.
// Run in a scratch directory that holds phreeqc.dat (the failing call writes error.inp into the cwd).  exit 0 when the call returns with that error.
#include "IPhreeqc.hpp"
#include <cstdio>
#include <cstring>
int main(){
  IPhreeqc p; if (p.LoadDatabase("phreeqc.dat")) return 2;
  int e = p.RunString("SOLUTION 1\n pH 7\n Na 1\nSURFACE 1\n Hfo_w 0.1 600 1\n Hfo_s 2147483647\n -equil 1\nMIX 1\n 1 0.5\nEND\n");
  bool said = strstr(p.GetErrorString(), "Numerical method failed") != NULL;
  printf("errors %d, %s\n", e, said ? "`Numerical method failed on all combinations`" : "no such message");
  return e > 0 && said ? 0 : 1;
}
