// Replay (pre-fix, see known_findings.json a686ee0d): `10 PUNCH GFW("Na(")` in USER_PUNCH.  "Unbalanced parentheses" is recorded, the BASIC
// program goes on, and the punched value was the uninitialised local of the GFW function (6.95e-310 in one run; valgrind: conditional jump
// depends on uninitialised value when the value is printed).  compute_gfw now sets the result to zero before it can fail.
// cwd = /repo/database.  exit 0 when the punched value is 0.
#include "IPhreeqc.hpp"
#include <cstdio>
int main(){
  IPhreeqc p; if (p.LoadDatabase("phreeqc.dat")) return 2;
  p.SetSelectedOutputStringOn(true);
  int e = p.RunString("SOLUTION 1\nSELECTED_OUTPUT 1\n -reset false\nUSER_PUNCH 1\n -headings g\n 10 PUNCH GFW(\"Na(\")\nEND\n");
  VAR v; VarInit(&v); p.GetSelectedOutputValue(1, 0, &v);
  printf("errors %d; punched value %g\n", e, v.type == TT_DOUBLE ? v.dVal : -1.0);
  return e > 0 && v.type == TT_DOUBLE && v.dVal == 0.0 ? 0 : 1;
}
