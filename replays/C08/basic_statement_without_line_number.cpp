// Replay (pre-fix, see known_findings.json 54d34187 / 2472b9ef): BASIC statements WITHOUT a line number in USER_PUNCH are executed at once while
// the program is compiled, with stmtline == NULL (and linebase == NULL when nothing numbered precedes them).
//   (a) ` PUNCH 1/0`  - the zero-divide warning formatted stmtline->num / stmtline->inbuf: SIGSEGV
//   (b) ` READ x`     - cmdread walked linebase->txt: SIGSEGV (expected: "Out of Data")
// Each case runs in a child process.  cwd = /repo/database.  exit 0 when both children return.
#include "IPhreeqc.hpp"
#include <cstdio>
#include <cstring>
#include <sys/wait.h>
#include <unistd.h>
int main(){
  const char* in[2] = {
    "SOLUTION 1\nSELECTED_OUTPUT\n -reset false\nUSER_PUNCH\n -headings a\n PUNCH 1/0\nEND\n",
    "SOLUTION 1\nSELECTED_OUTPUT\n -reset false\nUSER_PUNCH\n -headings a\n READ x\n PUNCH x\nEND\n"};
  int bad = 0;
  for (int k = 0; k < 2; k++) {
    fflush(stdout);
    pid_t pid = fork();
    if (pid == 0) {
      IPhreeqc p; if (p.LoadDatabase("phreeqc.dat")) _exit(3);
      int e = p.RunString(in[k]);
      if (k == 1 && !(e > 0 && strstr(p.GetErrorString(), "Out of Data"))) _exit(1);
      _exit(0);
    }
    int st = 0; waitpid(pid, &st, 0);
    if (WIFSIGNALED(st)) { printf("case %c: process killed by signal %d\n", 'a' + k, WTERMSIG(st)); bad++; }
    else if (WEXITSTATUS(st)) { printf("case %c: unexpected result\n", 'a' + k); bad++; }
    else printf("case %c: returned\n", 'a' + k);
  }
  return bad ? 1 : 0;
}
