// Replay (pre-fix, see known_findings.json): for a cell listed under `TRANSPORT -same_model` check_same_model returned TRUE before looking at
// anything; quick_setup then wrote master[i]->unknown->moles for an element the retained model has no unknown for (K / Br arriving in a NaCl
// cell): SIGSEGV.  The hint now skips the comparison of the reactants only; the elements are still checked.
// cwd = /repo/database.  exit 0: the run returns and K has entered cell 1 after the first shift; pre-fix: killed by SIGSEGV.
#include "IPhreeqc.hpp"
#include <cstdio>
int main(){
  IPhreeqc p; p.LoadDatabase("phreeqc.dat");
  const char *in = "SOLUTION 0\n K 5\n Br 5\nSOLUTION 1-4\n Na 1\n Cl 1\nEND\nSELECTED_OUTPUT 1\n -reset false\n -step true\n -solution true\n -totals K\n"
                   "TRANSPORT\n -cells 4\n -shifts 3\n -flow_direction forward\n -boundary_conditions flux flux\n -lengths 4*0.1\n -dispersivities 4*0\n -diffusion_coefficient 0\n"
                   " -time_step 3600\n -punch_cells 1-4\n -same_model 1-4\nEND\n";
  int r = p.RunString(in);
  printf("rc=%d rows=%d\n%s", r, p.GetSelectedOutputRowCount(), p.GetErrorString());
  return r == 0 ? 0 : 1;
}
