// Replay (pre-fix, see known_findings.json): eight inputs whose fault the engine reports (or, for the empty GAS_PHASE, that are valid) and that
// nevertheless ended the process before the repairs f8975e59 57b3aee2 54fa4a03 e95bcf05 b421e412 ea1926f1 f17a728d 88d2dbb2.
// Each case runs in a child process; pre-fix every child dies of SIGSEGV / SIGBUS / SIGABRT (std::logic_error from a null name).
// cwd = /repo/database.  exit 0 when every child returns and reports what the case expects.
#include "IPhreeqc.hpp"
#include <cstdio>
#include <cstring>
#include <sys/wait.h>
#include <unistd.h>
struct Case { const char* name; const char* input; const char* expect; };   // expect: text in the error string, or NULL for "no errors"
static const Case cases[] = {
  {"add_logk without a name",      "SOLUTION_SPECIES\n H2O = OH- + H+\n -add_logk\nSOLUTION 1\nEND\n", "Expected the name of a NAMED_EXPRESSION"},
  {"add_constant without a number","SOLUTION_SPECIES\n H2O = OH- + H+\n -add_constant\nSOLUTION 1\nEND\n", "Expected the constant to add"},
  {"PARM(-1)",                     "SOLUTION 1\nSELECTED_OUTPUT 1\nUSER_PUNCH 1\n -headings a\n 10 PUNCH PARM(-1)\nEND\n", "Parameter subscript out of range"},
  {"empty GAS_PHASE, then MIX",    "SOLUTION 2\nGAS_PHASE 5\nEND\nMIX 1\n 2 0.7\nEND\n", NULL},
  {"-stagnant -1",                 "SOLUTION 0-20\nEND\nTRANSPORT\n -cells 20\n -stagnant -1\nEND\n", "Expecting number of stagnant layers"},
  {"exchange master Cl- K+",       "EXCHANGE_MASTER_SPECIES\n Cl- K+\nSOLUTION 1\n K 1\n Cl 1\nEND\n", "Master species for valence states"},
  {"-mole_balance Zz",             "EXCHANGE_SPECIES\n K+ + X- = KX\n log_k 0.7\n -mole_balance Zz\nSOLUTION 1\nEND\n", "Zz"},
  {"exchanger Zz on a mineral",    "SOLUTION 1\nEQUILIBRIUM_PHASES 1\n Anhydrite 0 1\nEXCHANGE 1\n Zz Anhydrite equilibrium_phase 0.1\nEND\n", "Master species not in database for Zz"},
};
int main(){
  int bad = 0;
  for (const Case& c : cases) {
    fflush(stdout);
    pid_t pid = fork();
    if (pid == 0) {
      alarm(60);
      IPhreeqc p; if (p.LoadDatabase("phreeqc.dat")) _exit(3);
      int e = p.RunString(c.input);
      bool ok = c.expect ? (e > 0 && strstr(p.GetErrorString(), c.expect) != NULL) : e == 0;
      _exit(ok ? 0 : 1);
    }
    int st = 0; waitpid(pid, &st, 0);
    if (WIFSIGNALED(st)) { printf("%-32s process killed by signal %d\n", c.name, WTERMSIG(st)); bad++; }
    else if (WEXITSTATUS(st) != 0) { printf("%-32s returned, unexpected result (%d)\n", c.name, WEXITSTATUS(st)); bad++; }
    else printf("%-32s returned: %s\n", c.name, c.expect ? c.expect : "no errors");
  }
  return bad ? 1 : 0;
}
