// Replay (pre-fix, see known_findings.json): read_advection sized advection_punch / advection_print with count_ad_cells + 1 without a sign
// check: `ADVECTION; -cells -2` made std::vector::resize throw std::length_error, which left RunString as a C++ exception.
// cwd = /repo/database.  exit 0: RunString returns non-zero with an ERROR line; pre-fix: exit 1 (exception escaped).
#include "IPhreeqc.hpp"
#include <iostream>
#include <exception>
int main(){ IPhreeqc p; p.LoadDatabase("phreeqc.dat");
 try { int r=p.RunString("SOLUTION 0\nSOLUTION 1\nADVECTION\n -cells -2\n -shifts 1\nEND\n"); std::cout<<"rc="<<r<<"\n"<<p.GetErrorString(); return r!=0 ? 0 : 1; }
 catch(std::exception&e){ std::cout<<"exception escaped RunString: "<<e.what()<<"\n"; return 1; } }
