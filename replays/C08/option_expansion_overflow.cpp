// Replay (pre-fix, see known_findings.json): Phreeqc::get_option replaces an abbreviated option by its full name in place
// (`-a` -> `-analytical_expression`, +20 bytes) in the buffers `line` / `line_save`, which get_line sized for the unexpanded line.
// A line of 4091 bytes fills the 4096-byte buffers; the expansion writes past their end.  The call returned 0; the next LoadDatabase
// aborted with `free(): invalid next size`.  Runs in a child process.  cwd = /repo/database.  exit 1 if the child dies.
#include "IPhreeqc.hpp"
#include <cstdio>
#include <string>
#include <unistd.h>
#include <sys/wait.h>
static int child(int n){
  IPhreeqc p; if (p.LoadDatabase("phreeqc.dat")) return 2;
  std::string in = "SOLUTION_SPECIES\nH2O = OH- + H+\n-a " + std::string(n, '1') + "\nEND\n";
  p.RunString(in.c_str());
  if (p.LoadDatabase("phreeqc.dat")) return 3;
  if (p.RunString("SOLUTION 1\n Na 1\n Cl 1\nEND\n")) return 4;
  return 0;
}
int main(){
  int bad = 0;
  for (int n = 4070; n <= 4100; n += 2) {
    fflush(stdout);
    pid_t pid = fork();
    if (pid == 0) { fclose(stderr); _exit(child(n)); }
    int st = 0; waitpid(pid, &st, 0);
    if (WIFSIGNALED(st)) { printf("option value of %d characters: FAIL, killed by signal %d\n", n, WTERMSIG(st)); bad++; }
    else if (WEXITSTATUS(st)) { printf("option value of %d characters: FAIL, instance unusable afterwards (step %d)\n", n, WEXITSTATUS(st)); bad++; }
  }
  if (!bad) printf("OK: long option lines are expanded without corrupting the heap\n");
  return bad ? 1 : 0;
}
