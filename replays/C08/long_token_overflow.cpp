// Replay (candidate F6): Phreeqc::copy_token(char*, const char**, int*) copies a token of any length into the caller's
// char[MAX_LENGTH] (256-byte) stack buffer.  A 2000-character token in ordinary keyword blocks overflows it.
// Each probe runs in a child process; exit 1 if any probe is killed by a signal / aborts instead of returning an error count.
#include <cstdio>
#include <cstdlib>
#include <string>
#include <vector>
#include <unistd.h>
#include <sys/wait.h>
#include "IPhreeqc.hpp"
int main() {
  std::string T(2000, 'A');
  std::vector<std::pair<std::string, std::string> > probes;
  probes.push_back(std::make_pair("EQUILIBRIUM_PHASES phase name", "SOLUTION 1\nEQUILIBRIUM_PHASES 1\n " + T + " 0 1\nEND\n"));
  probes.push_back(std::make_pair("REACTION reactant", "SOLUTION 1\nREACTION 1\n " + T + " 1\n 1 mol\nEND\n"));
  probes.push_back(std::make_pair("GAS_PHASE component", "SOLUTION 1\nGAS_PHASE 1\n -fixed_pressure\n " + T + " 0.1\nEND\n"));
  probes.push_back(std::make_pair("INVERSE_MODELING -phases", "SOLUTION 1\nSOLUTION 2\nINVERSE_MODELING 1\n -solutions 1 2\n -phases\n  " + T + "\nEND\n"));
  probes.push_back(std::make_pair("USE keyword", "USE " + T + " 1\nEND\n"));
  int crashed = 0;
  for (size_t i = 0; i < probes.size(); ++i) {
    fflush(stdout);
    pid_t pid = fork();
    if (pid == 0) {
      freopen("/dev/null", "w", stderr);
      IPhreeqc a;
      if (a.LoadDatabase("phreeqc.dat")) _exit(3);
      int rc = a.RunString(probes[i].second.c_str());
      // reload and run a good input: the instance must still be usable
      if (a.LoadDatabase("phreeqc.dat")) _exit(4);
      if (a.RunString("SOLUTION 1\nEND\n")) _exit(5);
      _exit(rc != 0 ? 0 : 6);      // bad input must be reported as an error
    }
    int st = 0; waitpid(pid, &st, 0);
    if (WIFSIGNALED(st)) { printf("%-32s: KILLED by signal %d\n", probes[i].first.c_str(), WTERMSIG(st)); crashed++; }
    else if (WEXITSTATUS(st) != 0) { printf("%-32s: exit code %d\n", probes[i].first.c_str(), WEXITSTATUS(st)); crashed++; }
    else printf("%-32s: reported as error, instance reusable\n", probes[i].first.c_str());
  }
  printf(crashed ? "RESULT: FAIL (%d probes)\n" : "RESULT: PASS\n", crashed);
  return crashed ? 1 : 0;
}
