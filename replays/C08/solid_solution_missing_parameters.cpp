// Replay (pre-fix, see known_findings.json 173f9f78): SOLID_SOLUTIONS with a parameter option that carries no numbers
// (-miscibility_gap, -spinodal_gap, -Margules).  The reader reports "Expected 2 miscibility gap fractions ..." with CONTINUE; tidy runs before
// the input-error stop and ss_calc_a0_a1 indexed p[0..3] of the empty vector: SIGSEGV.
// Each case runs in a child process.  cwd = /repo/database.  exit 0 when every child returns with errors.
#include "IPhreeqc.hpp"
#include <cstdio>
#include <string>
#include <sys/wait.h>
#include <unistd.h>
int main(){
  const char* opt[3] = {"miscibility_gap", "spinodal_gap", "Margules"};
  int bad = 0;
  for (int k = 0; k < 3; k++) {
    fflush(stdout);
    pid_t pid = fork();
    if (pid == 0) {
      IPhreeqc p; if (p.LoadDatabase("phreeqc.dat")) _exit(3);
      std::string in = std::string("SOLUTION 1\nSOLID_SOLUTIONS 1\n Ss\n -comp1 Aragonite 0\n -comp2 Strontianite 0\n -") + opt[k] + "\nEND\n";
      _exit(p.RunString(in.c_str()) > 0 ? 0 : 1);
    }
    int st = 0; waitpid(pid, &st, 0);
    if (WIFSIGNALED(st)) { printf("-%s: process killed by signal %d\n", opt[k], WTERMSIG(st)); bad++; }
    else if (WEXITSTATUS(st)) { printf("-%s: returned without errors\n", opt[k]); bad++; }
    else printf("-%s: returned with input errors\n", opt[k]);
  }
  return bad ? 1 : 0;
}
