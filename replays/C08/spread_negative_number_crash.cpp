// Replay (pre-fix, see known_findings.json): spread_row_to_solution registered the value of the `Number` column in Rxn_new_solution also when it is
// negative, but stores such a row as an unnumbered solution: initial_solutions then looked up solution -3, got end() and dereferenced it (SIGSEGV).
// cwd = /repo/database.  exit 0: RunString returns (the row is calculated as an unnumbered solution); pre-fix: killed by SIGSEGV.
#include "IPhreeqc.hpp"
#include <cstdio>
int main(){
  IPhreeqc p; p.LoadDatabase("phreeqc.dat"); p.SetDumpStringOn(true);
  int r = p.RunString("SOLUTION_SPREAD\nNumber\tNa\n-3\t1\nEND\nDUMP\n -solution\nEND\n");
  printf("rc=%d\n%s%.60s\n", r, p.GetErrorString(), p.GetDumpString());
  return 0;
}
