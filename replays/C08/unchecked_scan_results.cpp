// Replay (pre-fix: see known_findings.json): numbers are read with sscanf after a token-class test that also accepts "-", "." and
// "-abc" (copy_token classifies by the first character).  Where the result of sscanf was discarded and the target was an
// uninitialised local, such a token left an indeterminate value in the definition and the call returned 0 without any ERROR
// (e.g. `X Calcite equilibrium_phase -` printed "[3.45846e-323 (mol X)/(mol Calcite)]").  Each case below must now be rejected
// with an ERROR (non-zero return).  cwd = /repo/database.  exit 1 if a malformed number is accepted silently.
#include "IPhreeqc.hpp"
#include <cstdio>
#include <cstring>
#include <string>
struct Case { const char* name; const char* input; };
int main(){
  const char* base = "SOLUTION 1\n Ca 1\n C(4) 2\n Na 1\n Cl 1\nEQUILIBRIUM_PHASES 1\n Calcite 0 1\nEND\n";
  Case cases[] = {
    {"EXCHANGE proportion '-'",       "EXCHANGE 1\n X Calcite equilibrium_phase -\n -equilibrate 1\nEND\n"},
    {"EXCHANGE kinetic proportion '.'", "EXCHANGE 1\n X 0.1 Calcite .\n -equilibrate 1\nEND\n"},
    {"EXCHANGE -equilibrate '-'",     "EXCHANGE 1\n X 0.1\n -equilibrate -\nEND\n"},
    {"MIX solution number '-x'",      "MIX 1\n -x 0.5\nEND\n"},
    {"USE solution '-'",              "USE solution -\nREACTION 1\n NaCl 1\n 1 mmol\nEND\n"},
    {"SAVE solution '-'",             "USE solution 1\nREACTION 1\n NaCl 1\n 1 mmol\nSAVE solution -\nEND\n"},
    {"COPY source '-'",               "COPY solution - 5\nEND\n"},
    {"COPY target '-'",               "COPY solution 1 -\nEND\n"},
    {"GAS_BINARY_PARAMETERS value",   "GAS_BINARY_PARAMETERS\n CO2(g) H2O(g) xyz\nEND\n"},
  };
  int bad = 0;
  for (const Case& c : cases) {
    IPhreeqc p; if (p.LoadDatabase("phreeqc.dat")) return 2;
    if (p.RunString(base)) { printf("base input failed\n"); return 2; }
    int rc = p.RunString(c.input);
    int nerr = p.GetErrorStringLineCount();
    printf("%-34s rc=%d error lines=%d %s\n", c.name, rc, nerr, (rc == 0) ? "<-- accepted silently" : "");
    if (rc == 0) bad++;
  }
  if (bad) { printf("FAIL: %d malformed number(s) accepted without an ERROR\n", bad); return 1; }
  printf("OK: every malformed number is reported\n");
  return 0;
}
