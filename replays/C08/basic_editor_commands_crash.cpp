// Replay (pre-fix, see known_findings.json): BASIC statements inherited from the interactive interpreter inside a stored program.
// NEW / DEL / LOAD / RUN "file" free the program lines while the caller keeps its pointer to them: the call returned, and the NEXT
// LoadDatabase died with SIGSEGV in clean_up -> rate_free -> cmdnew; POKE addr, v wrote through an arbitrary address (SIGSEGV inside
// RunString); PEEK reads one.  Each case runs in a child process: define the program, run it, reload the database, run a probe.
// cwd = /repo/database.  exit 1 when a child is killed by a signal or the sequence does not end in a working instance.
#include "IPhreeqc.hpp"
#include <cstdio>
#include <string>
#include <unistd.h>
#include <sys/wait.h>
static int child(const char* stmt){
  IPhreeqc p; if (p.LoadDatabase("phreeqc.dat")) return 2;
  p.SetOutputStringOn(true);                                   // USER_PRINT runs only when output is produced
  std::string in = std::string("SOLUTION 1\nUSER_PRINT\n-start\n10 ") + stmt + "\n-end\nEND\n";
  int rc = p.RunString(in.c_str());
  if (p.LoadDatabase("phreeqc.dat")) return 3;
  if (p.RunString("SOLUTION 1\n Na 1\n Cl 1\nEND\n")) return 4;
  return rc ? 0 : 5;                                           // the malformed program must have been reported as an error
}
int main(){
  const char* stmts[] = { "NEW", "DEL 10", "LOAD \"nofile\"", "RUN \"nofile\"", "POKE 0, 1", "x = PEEK(0)" };
  int bad = 0;
  for (const char* s : stmts) {
    fflush(stdout);
    pid_t pid = fork();
    if (pid == 0) { _exit(child(s)); }
    int st = 0; waitpid(pid, &st, 0);
    if (WIFSIGNALED(st)) { printf("%-16s FAIL: killed by signal %d\n", s, WTERMSIG(st)); bad++; }
    else if (WEXITSTATUS(st) == 5) { printf("%-16s FAIL: accepted without an error\n", s); bad++; }
    else if (WEXITSTATUS(st) != 0) { printf("%-16s FAIL: instance unusable afterwards (step %d)\n", s, WEXITSTATUS(st)); bad++; }
    else printf("%-16s ok: reported as an error, reload and probe fine\n", s);
  }
  return bad ? 1 : 0;
}
