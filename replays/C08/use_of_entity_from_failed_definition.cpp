// Replay (pre-fix, see known_findings.json): three calls on one instance: (1) SOLUTION 1; (2) an EQUILIBRIUM_PHASES / SOLID_SOLUTIONS / GAS_PHASE block
// that names a phase the database does not have - the run stops with the proper input error, but the entity stays stored; (3) `USE
// solution 1; USE <that entity> 1; END` - the phase pointer is NULL where step() / add_ss_assemblage() / gas_phase_check() look the
// phase up again, and the host process died with SIGSEGV.  usage: replay <1|2|3>   cwd = /repo/database.
// exit 0 when the third call returns with an error; pre-fix exit 139.
#include "IPhreeqc.hpp"
#include <cstdio>
#include <cstdlib>
int main(int argc, char **argv){
  int k = argc > 1 ? atoi(argv[1]) : 1;
  IPhreeqc p; p.LoadDatabase(k == 2 ? "pitzer.dat" : "phreeqc.dat");
  p.RunString(k == 2 ? "SOLUTION 1\n pH 7 charge\n Ca 10\n Na 500\n C 2\n Cl 520\nEND\n" : "SOLUTION 1\n pH 7 charge\n Ca 1\n C 2\nEND\n");
  const char *def = k == 1 ? "EQUILIBRIUM_PHASES 1\n Calcite 0 0.01\n Nosuchphase 0 0.01\nEND\n"
                  : k == 2 ? "SOLID_SOLUTIONS 1\n CaSr\n -comp Aragonite 0.001\n -comp Strontianite 0.0001\nEND\n"
                           : "GAS_PHASE 1\n -fixed_volume\n CO2(g) 0.01\n Nosuchgas(g) 0.1\nEND\n";
  const char *use = k == 1 ? "USE solution 1\nUSE equilibrium_phases 1\nEND\n" : k == 2 ? "USE solution 1\nUSE solid_solutions 1\nEND\n" : "USE solution 1\nUSE gas_phase 1\nEND\n";
  int e1 = p.RunString(def);
  int e2 = p.RunString(use);
  printf("definition: %d error(s); use: %d error(s): %.80s\n", e1, e2, e2 ? p.GetErrorString() : "");
  return e2 > 0 ? 0 : 1;
}
