// Replay (pre-fix, see known_findings.json): warnings issued while a database is read belong to the LoadDatabase* call, but the self-test run that
// LoadDatabase* performs afterwards (test_db -> RunString -> check_database) clears the warning reporter: GetWarningString() after the
// load was empty although `WARNING: Unknown input, no keyword has been specified.` had been issued.  cwd = /repo/database.
// exit 1 when the warning of the load is not in the warning string after the call.
#include "IPhreeqc.hpp"
#include <cstdio>
#include <cstring>
#include <fstream>
#include <sstream>
#include <string>
int main(){
  std::ifstream f("phreeqc.dat"); std::stringstream ss; ss << f.rdbuf();
  std::string db = "junk line before the first keyword\n" + ss.str();
  IPhreeqc p;
  int rc = p.LoadDatabaseString(db.c_str());
  printf("LoadDatabaseString returned %d; warning lines: %d\n%s", rc, p.GetWarningStringLineCount(), p.GetWarningString());
  if (rc != 0) return 2;
  if (strstr(p.GetWarningString(), "Unknown input") == NULL) { printf("FAIL: the warning issued while loading is lost\n"); return 1; }
  if (p.RunString("SOLUTION 1\nEND\n")) return 2;
  if (p.GetWarningStringLineCount() != 0) { printf("FAIL: the load's warning leaks into the next call\n"); return 1; }
  printf("OK\n"); return 0;
}
