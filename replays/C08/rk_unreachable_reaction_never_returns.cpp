// Replay (pre-fix, see known_findings.json): a kinetic reactant that must take an element the solution does not contain (B = LiBr, negative
// rate, no Li in solution) fails the mass balance at every step above ~1e-16 s.  rk_kinetics cut the step back without counting the failure,
// accepted a step of ~1e-16 s, multiplied the size by 4, failed again ...: RunString did not return (CVODE stops with an error at once).
// cwd = /repo/database.  exit 0: the call returns non-zero with an ERROR within 60 s; pre-fix: the alarm fires -> exit 1.
#include "IPhreeqc.hpp"
#include <csignal>
#include <cstdio>
#include <cstdlib>
#include <unistd.h>
static void fired(int) { const char m[] = "RunString did not return within 60 s\n"; (void) !write(1, m, sizeof m - 1); _exit(1); }
int main(){
  signal(SIGALRM, fired); alarm(60);
  IPhreeqc p; p.LoadDatabase("phreeqc.dat");
  const char *in = "RATES\nA\n-start\n10 SAVE parm(1) * M * TIME\n-end\nB\n-start\n10 SAVE (parm(2) * M - parm(1) * KIN(\"A\")) * TIME\n-end\nSOLUTION 1\n Na 1; Cl 1\n"
                   "KINETICS 1\nA\n -formula KBr 1\n -m 1e-3\n -parms 2e-3\n -tol 1e-10\nB\n -formula LiBr 1\n -m 0\n -m0 1e-3\n -parms 2e-3 5e-4\n -tol 1e-10\n -steps 100\n -runge_kutta 3\nEND\n";
  int r = p.RunString(in);
  printf("rc=%d\n%s", r, p.GetErrorString());
  return r != 0 ? 0 : 1;
}
