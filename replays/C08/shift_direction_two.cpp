// Replay (pre-fix, see known_findings.json): `TRANSPORT -cells 4 -shifts 3 2`.  The second number of -shifts is the direction (-1, 0, 1); the reader
// took any integer.  transport() shifts the column with `for (i = last_c; i != first_c - ishift; i -= ishift)`: with a step of 2 and an
// even number of cells the loop never meets its end value - the call did not return (with 5 cells it returned with a scrambled column).
// cwd = /repo/database.  exit 0 when the run ends with an input error; pre-fix the process hangs (run it under `timeout`).
#include "IPhreeqc.hpp"
#include <cstdio>
#include <cstring>
int main(){
  IPhreeqc p; p.LoadDatabase("phreeqc.dat");
  int e = p.RunString("SOLUTION 0\n Li 1\n Br 1\nSOLUTION 1-4\n Na 1\n Cl 1\nEND\nTRANSPORT\n -cells 4\n -shifts 3 2\n -lengths 0.1\nEND\n");
  bool said = strstr(p.GetErrorString(), "Expected shift direction") != NULL;
  printf("errors %d, %s\n", e, said ? "`Expected shift direction, -1, 0, 1`" : "no message about the direction");
  return e > 0 && said ? 0 : 1;
}
