// Replay (pre-fix, see known_findings.json): tidy_model reports `e- not defined in solution_species` for s_eminus == NULL and then tested
// s_eminus->primary: loading a database that defines H+ and H2O but no e- killed the process (SIGSEGV) instead of returning input errors.
// cwd: any.  exit 0: LoadDatabaseString returns non-zero with ERROR lines; pre-fix: killed by SIGSEGV.
#include "IPhreeqc.hpp"
#include <cstdio>
int main(){
  IPhreeqc p;
  int r = p.LoadDatabaseString("SOLUTION_MASTER_SPECIES\nH  H+  -1 1 1.008\nH(1) H+ -1 1\nO  H2O 0 16 16\nO(-2) H2O 0 16\nSOLUTION_SPECIES\nH+ = H+\n log_k 0\nH2O = H2O\n log_k 0\nEND\n");
  printf("LoadDatabaseString rc=%d\n%s", r, p.GetErrorString());
  return r != 0 ? 0 : 1;
}
