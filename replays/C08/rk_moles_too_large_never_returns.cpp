// Replay (pre-fix e1a96f3e): a rate that does not scale with TIME keeps the MOLES_TOO_LARGE retry of rk_kinetics going forever;
// RunString never returned (watchdog after 20 s -> exit 1).  With the fix the call returns 1 with an ERROR.  cwd = /repo/database.
#include "IPhreeqc.hpp"
#include <cstdio>
#include <unistd.h>
#include <signal.h>
static void onalarm(int){ printf("HANG: RunString did not return within 20 s\n"); fflush(stdout); _exit(1); }
int main(){
  IPhreeqc p; if (p.LoadDatabase("phreeqc.dat")) return 2;
  signal(SIGALRM,onalarm); alarm(20);
  const char* in =
   "RATES\nsink\n-start\n10 SAVE -1\n-end\n"
   "SOLUTION 1\nNa 1\nCl 1\n"
   "KINETICS 1\nsink\n-formula NaCl 1\n-m0 10\n-steps 100\n"
   "END\n";
  int rc = p.RunString(in);
  printf("returned %d\n%s\n", rc, p.GetErrorString());
  return 0;
}
