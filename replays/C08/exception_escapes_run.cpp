// Replay (known finding): the run boundary (RunString/RunFile/RunAccumulated, load_db*) re-throws every std::exception
// that is not IPhreeqcStop after recording it.  Input-dependent code can raise such exceptions:
//   (1) BASIC  MID$("abc", 10)  -> std::out_of_range from std::string::substr in PBasic
//   (2) a name/formula of >= 256 characters -> std::runtime_error from Utilities::strcpy_safe
// so for these inputs the API call does not return normally.  exit 1 = an exception escaped.
#include <cstdio>
#include <string>
#include <exception>
#include "IPhreeqc.hpp"
static int probe(const char *what, const std::string &in) {
  IPhreeqc a; a.LoadDatabase("phreeqc.dat"); a.SetOutputStringOn(true);
  try { int rc = a.RunString(in.c_str()); printf("%-28s: returned %d (errors recorded: %s)\n", what, rc, rc ? "yes" : "no"); return 0; }
  catch (const std::exception &e) { printf("%-28s: EXCEPTION escaped RunString: %s\n", what, e.what()); return 1; }
}
int main() {
  int bad = 0;
  bad += probe("BASIC MID$ past end", "SOLUTION 1\nUSER_PRINT\n10 a$ = MID$(\"abc\", 10)\n20 PRINT a$\nEND\n");
  std::string el = "[X" + std::string(2000, 'a') + "]";
  bad += probe("2000-character formula", "SOLUTION 1\n Na 1 as " + el + "\nEND\n");
  printf(bad ? "RESULT: FAIL (%d)\n" : "RESULT: PASS\n", bad);
  return bad ? 1 : 0;
}
