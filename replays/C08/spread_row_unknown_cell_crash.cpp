// Replay (pre-fix, see known_findings.json): string_to_spread_row pushed no type for a cell that is neither empty, text nor number but still
// counted it; read_solution_spread then read type_vector[count-1] past the end of the vector.  A SOLUTION_SPREAD units row delimited by blanks
// and starting with a quote - `"" "" charge "" "" "as SO4" "as HCO3"` - killed the process (SIGSEGV) instead of ending in the input error.
// cwd = /repo/database.  exit 0: RunString returns non-zero with ERROR lines; pre-fix: killed by SIGSEGV.
#include "IPhreeqc.hpp"
#include <cstdio>
int main(){
  IPhreeqc p; p.LoadDatabase("phreeqc.dat");
  int r = p.RunString("SOLUTION_SPREAD\n -units mg/kgw\n Number pH Na Cl Ca Mg S(6) Alkalinity\n \"\" \"\" charge \"\" \"\" \"as SO4\" \"as HCO3\"\n 1 7.5 230 177 80 24 144 183\nEND\n");
  printf("rc=%d\n%s", r, p.GetErrorString());
  return r != 0 ? 0 : 1;
}
