// Replay: names / formulas of 256 or more characters reach Utilities::strcpy_safe, whose overrun branch executed a bare
// `throw;` with no active exception -> std::terminate -> the process aborts.  (After the fix a std::runtime_error is thrown;
// the run boundary records it as an ERROR and re-throws it to the caller - see the known finding on escaping exceptions.)
// Each probe runs in a child; exit 1 if any child is killed by a signal.
#include <cstdio>
#include <cstdlib>
#include <string>
#include <exception>
#include <unistd.h>
#include <sys/wait.h>
#include "IPhreeqc.hpp"
int main() {
  std::string T(2000, 'a'); std::string el = "[X" + T + "]";
  std::string in[3];
  in[0] = "SOLUTION_MASTER_SPECIES\n " + el + " " + el + "+ 0 1 1\nSOLUTION_SPECIES\n " + el + "+ = " + el + "+\n log_k 0\nEND\n";
  in[1] = "SOLUTION 1\nREACTION 1\n " + el + "Cl 1\n 1 mmol\nEND\n";
  in[2] = "SOLUTION 1\n Na 1 as " + el + "\nEND\n";
  int killed = 0, escaped = 0;
  for (int i = 0; i < 3; i++) {
    fflush(stdout);
    pid_t p = fork();
    if (p == 0) {
      freopen("/dev/null", "w", stderr);
      IPhreeqc a; a.LoadDatabase("phreeqc.dat");
      try { int rc = a.RunString(in[i].c_str()); _exit(rc ? 0 : 6); }
      catch (const std::exception &) { _exit(7); }
    }
    int st; waitpid(p, &st, 0);
    if (WIFSIGNALED(st)) { printf("probe %d: process KILLED by signal %d\n", i, WTERMSIG(st)); killed++; }
    else if (WEXITSTATUS(st) == 7) { printf("probe %d: exception escaped RunString (process alive)\n", i); escaped++; }
    else printf("probe %d: exit %d\n", i, WEXITSTATUS(st));
  }
  printf("killed=%d escaped=%d\n", killed, escaped);
  printf(killed ? "RESULT: FAIL\n" : "RESULT: PASS (no process exit)\n");
  return killed ? 1 : 0;
}
