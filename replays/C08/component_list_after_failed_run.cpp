// Replay (pre-fix, see known_findings.json d9e3957c): a run that ends in "Gas not found" / "Phase not found" leaves its GAS_PHASE and
// SOLID_SOLUTIONS entities stored; GetComponentCount() walks every stored entity and list_GasComponents / list_SolidSolutions dereferenced the
// NULL result of phase_bsearch: SIGSEGV in an accessor after a call that had returned its error count properly.
// cwd = /repo/database.  exit 0 when GetComponentCount returns.
#include "IPhreeqc.hpp"
#include <cstdio>
int main(){
  IPhreeqc p; if (p.LoadDatabase("phreeqc.dat")) return 2;
  int e = p.RunString("SOLUTION 1\nGAS_PHASE 1\n Amm(g) 0.1\nSOLID_SOLUTIONS 1\n Ss\n -comp Foo 0.1\n -comp Calcite 0.1\nEND\n");
  printf("run errors %d\n", e);
  printf("components %d\n", (int)p.GetComponentCount());
  return e > 0 ? 0 : 1;
}
