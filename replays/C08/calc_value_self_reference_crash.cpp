// Replay (pre-fix, see known_findings.json): a CALCULATE_VALUES program that asks for its own value, `10 SAVE CALC_VALUE("a")` in the definition
// of a, recursed through get_calculate_value -> basic_run -> ... -> get_calculate_value without bound and killed the process (SIGSEGV, stack
// overflow) - also for mutual references a -> b -> a.  USER_PRINT runs only with an output sink on.  cwd = /repo/database.
// exit 0: every call returns non-zero with an ERROR and the instance still works; pre-fix: killed by SIGSEGV.
#include "IPhreeqc.hpp"
#include <iostream>
#include <string>
int main(){
  IPhreeqc p; p.LoadDatabase("phreeqc.dat"); p.SetOutputStringOn(true);
  int r1 = p.RunString("CALCULATE_VALUES\na\n-start\n10 SAVE CALC_VALUE(\"a\")\n-end\nSOLUTION 1\nUSER_PRINT\n10 PRINT CALC_VALUE(\"a\")\nEND\n");
  std::cout << "self reference: rc=" << r1 << "\n" << p.GetErrorString();
  int r2 = p.RunString("CALCULATE_VALUES\na\n-start\n10 SAVE CALC_VALUE(\"b\")\n-end\nb\n-start\n10 SAVE CALC_VALUE(\"a\") + 1\n-end\nSOLUTION 1\nUSER_PRINT\n10 PRINT CALC_VALUE(\"b\")\nEND\n");
  std::cout << "mutual reference: rc=" << r2 << "\n" << p.GetErrorString();
  // a legitimate chain still works, also after the failures above
  int r3 = p.RunString("CALCULATE_VALUES\na\n-start\n10 SAVE 2\n-end\nb\n-start\n10 SAVE CALC_VALUE(\"a\") + CALC_VALUE(\"a\")\n-end\nSOLUTION 1\nUSER_PRINT\n10 PRINT \"b =\", CALC_VALUE(\"b\")\nEND\n");
  std::string out = p.GetOutputString();
  bool ok3 = r3 == 0 && out.find("b =") != std::string::npos && out.find("4") != std::string::npos;
  std::cout << "chain: rc=" << r3 << (ok3 ? " value printed\n" : " WRONG\n");
  return (r1 != 0 && r2 != 0 && ok3) ? 0 : 1;
}
