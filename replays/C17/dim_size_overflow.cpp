// Replay (pre-fix, see known_findings.json): `DIM a(65535, 65535, 65535, 65535)` - four dimensions of 65536 elements: cmddim multiplies the sizes in a
// long, the product 2^64 wraps to 0, a block of 0 bytes is allocated for the array and the first assignment `a(1,1,1,1) = 1` writes
// far outside it: segmentation fault.  A request that cannot be satisfied must give a BASIC error.
// cwd = /repo/database.  exit 0 when the run ends with an error message; pre-fix the process dies (exit 139).
#include "IPhreeqc.hpp"
#include <cstdio>
int main(){
  IPhreeqc p; p.LoadDatabase("phreeqc.dat");
  int e = p.RunString("SOLUTION 1\nSELECTED_OUTPUT 1\n -reset false\nUSER_PUNCH 1\n -headings a\n10 DIM a(65535, 65535, 65535, 65535)\n20 a(1,1,1,1) = 1\n30 PUNCH a(1,1,1,1)\nEND\n");
  printf("errors: %d\n%.200s\n", e, e ? p.GetErrorString() : "");
  return e > 0 ? 0 : 1;
}
