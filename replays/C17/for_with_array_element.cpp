// Replay (pre-fix, see known_findings.json): `FOR c(1) = 1 TO 3` with a loop body that references another element of the array and a bare NEXT.
// The loop record kept the variable (varrec*) and NEXT incremented `*vp->val`; for an array, val points to the element referenced LAST,
// so NEXT incremented c(2) instead of the control variable c(1): the loop ran with the wrong counter and punched 10 1 4 where a reference
// evaluation gives 3 (iterations), 4 (c(1) after the loop), 0 (c(2)).
// cwd = /repo/database.  exit 1 when the three values differ from 3, 4, 0.
#include "IPhreeqc.hpp"
#include <cstdio>
int main(){
  IPhreeqc p; p.LoadDatabase("phreeqc.dat");
  int e = p.RunString("SOLUTION 1\nSELECTED_OUTPUT 1\n -reset false\nUSER_PUNCH 1\n -headings n c1 c2\n10 DIM c(5)\n20 n = 0\n30 FOR c(1) = 1 TO 3\n40 n = n + 1\n50 x = c(2)\n55 IF n >= 10 THEN GOTO 70\n60 NEXT\n"
                      "70 PUNCH n, c(1), c(2)\nEND\n");
  if (e) { printf("%s", p.GetErrorString()); return 2; }
  double v[3]; for (int c = 0; c < 3; c++) { VAR a; VarInit(&a); p.GetSelectedOutputValue(1, c, &a); v[c] = a.type == TT_DOUBLE ? a.dVal : (double) a.lVal; VarClear(&a); }
  printf("iterations %g, c(1) = %g, c(2) = %g   (3, 4, 0 expected)\n", v[0], v[1], v[2]);
  return v[0] == 3 && v[1] == 4 && v[2] == 0 ? 0 : 1;
}
