// Replay (pre-fix, see known_findings.json): three valid BASIC programs that ended the process with SIGSEGV.
//   1  `10 a = 1e300 : 20 PRINT a`  and  `a$ = STR$(1e300)`: PBasic::numtostr writes %12.0f of an integral double (301 digits) with strcpy
//      into the caller's 256-byte buffer (stack array in cmdprint, 256-byte allocation for STR$);
//   2  `PUT$(a$, 1) : b$ = GET$(1)` with LEN(a$) = 40960: GET$ strcpy'd the stored string into a 256-byte allocation;
//   3  `PRINT "abc", LEN(NO_NEWLINE$)`: NO_NEWLINE$ delivered a string value with a null pointer.
// usage: replay <1|2|3>   cwd = /repo/database.  Each case prints its values and exits 0 on the repaired tree; pre-fix exit 139.
#include "IPhreeqc.hpp"
#include <cstdio>
#include <cstdlib>
#include <string>
int main(int argc, char **argv){
  int k = argc > 1 ? atoi(argv[1]) : 1;
  IPhreeqc p; p.LoadDatabase("phreeqc.dat"); p.SetSelectedOutputStringOn(true); p.SetOutputStringOn(true);
  std::string prog = k == 1 ? "10 a = 1e300\n20 a$ = STR$(a)\n30 PRINT a, LEN(a$)\n"
                   : k == 2 ? "10 a$ = \"0123456789\"\n20 FOR i = 1 TO 12 : a$ = a$ + a$ : NEXT i\n30 PUT$(a$, 1)\n40 b$ = GET$(1)\n50 PRINT LEN(a$), LEN(b$)\n"
                            : "10 PRINT \"abc\", LEN(NO_NEWLINE$)\n20 PRINT \"def\"\n";
  std::string in = "SOLUTION 1\nPRINT\n -reset false\n -user_print true\nUSER_PRINT\n -start\n" + prog + " -end\nEND\n";
  int e = p.RunString(in.c_str());
  if (e) { printf("%s", p.GetErrorString()); return 2; }
  std::string out = p.GetOutputString(); size_t i = out.find("User print");
  printf("%s", i == std::string::npos ? out.c_str() : out.c_str() + out.find('\n', i) + 1);
  return 0;
}
