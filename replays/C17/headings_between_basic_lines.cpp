// Replay (pre-fix, see known_findings.json): USER_PUNCH with the option line `-headings x y` AFTER the first two BASIC lines:
//     10 x = 5 / 20 y = 6 / -headings x y / 30 PUNCH x, y
// read_user_punch falls back to OPTION_DEFAULT after every option line, and the OPTION_DEFAULT case began with `r->commands.clear()`:
// the lines read before the option were thrown away without a message, the program was `30 PUNCH x, y` alone and punched 0 0.
// cwd = /repo/database.  exit 1 when the punched values are not 5 and 6.
#include "IPhreeqc.hpp"
#include <cstdio>
int main(){
  IPhreeqc p; p.LoadDatabase("phreeqc.dat");
  int e = p.RunString("SOLUTION 1\nSELECTED_OUTPUT 1\n -reset false\nUSER_PUNCH 1\n10 x = 5\n20 y = 6\n -headings x y\n30 PUNCH x, y\nEND\n");
  if (e) { printf("%s", p.GetErrorString()); return 2; }
  double v[2];
  for (int c = 0; c < 2; c++) { VAR a; VarInit(&a); p.GetSelectedOutputValue(1, c, &a); v[c] = a.type == TT_DOUBLE ? a.dVal : (double) a.lVal; VarClear(&a); }
  printf("punched %g %g (5 6 expected)\n", v[0], v[1]);
  return v[0] == 5 && v[1] == 6 ? 0 : 1;
}
