// Replay (pre-fix, see known_findings.json): get_calculate_value ran the program of a CALCULATE_VALUES definition, whose SAVE stores into the
// shared Phreeqc::rate_moles, without keeping the caller's value: a RATES program `10 SAVE 1e-3 * TIME : 20 y = CALC_VALUE("cv1")` lost its
// rate (cv1 = `SAVE 0`), while the same two statements in the other order kept it: dk_r1 = 0, dk_r2 = -1e-3 after a 1 s step.
// cwd = /repo/database.  exit 1 when the two reactants differ.
#include "IPhreeqc.hpp"
#include <cmath>
#include <cstdio>
int main(){
  IPhreeqc p; p.LoadDatabase("phreeqc.dat");
  const char *in = "CALCULATE_VALUES\ncv1\n -start\n10 SAVE 0\n -end\nRATES\nr1\n -start\n10 SAVE 1e-3 * TIME\n20 y = CALC_VALUE(\"cv1\")\n -end\nr2\n -start\n5 y = CALC_VALUE(\"cv1\")\n10 SAVE 1e-3 * TIME\n -end\n"
                   "SOLUTION 1\nKINETICS 1\nr1\n -formula NaCl 1\n -m0 1000\nr2\n -formula KBr 1\n -m0 1000\n -steps 1\nSELECTED_OUTPUT 1\n -reset false\n -kinetic_reactants r1 r2\nEND\n";
  if (p.RunString(in)) { printf("%s", p.GetErrorString()); return 2; }
  int last = p.GetSelectedOutputRowCount() - 1; double v[4];
  for (int c = 0; c < 4; c++) { VAR a; VarInit(&a); p.GetSelectedOutputValue(last, c, &a); v[c] = a.type == TT_DOUBLE ? a.dVal : 0; VarClear(&a); }
  printf("dk_r1 = %.6e (SAVE before CALC_VALUE)   dk_r2 = %.6e (SAVE after CALC_VALUE)\n", v[1], v[3]);
  return fabs(v[1] - v[3]) > 1e-12 ? 1 : 0;
}
