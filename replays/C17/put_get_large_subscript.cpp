// Replay (pre-fix, see known_findings.json): PUT / PUT$ held the subscripts in an int, GET / GET$ / EXISTS in a long, so the two sides built
// different keys for a subscript above 2^31: `PUT(5, 3000000000)` stored under "-1294967296," and `GET(3000000000)` looked up
// "3000000000,": 0 instead of 5, EXISTS = 0, GET$ = "unknown".
// cwd = /repo/database.  exit 1 when the value read back differs from the value stored.
#include "IPhreeqc.hpp"
#include <cstdio>
#include <string>
int main(){
  IPhreeqc p; p.LoadDatabase("phreeqc.dat"); p.SetOutputStringOn(true);
  std::string in = "SOLUTION 1\nPRINT\n -reset false\n -user_print true\nUSER_PRINT\n -start\n10 PUT(5, 3000000000)\n20 PUT$(\"abc\", 3000000001)\n"
                   "30 PRINT \"get\", GET(3000000000), \"exists\", EXISTS(3000000000), \"get$\", GET$(3000000001)\n -end\nEND\n";
  if (p.RunString(in.c_str())) { printf("%s", p.GetErrorString()); return 2; }
  std::string out = p.GetOutputString(); size_t i = out.find("get ");
  std::string line = i == std::string::npos ? "" : out.substr(i, out.find('\n', i) - i);
  printf("%s\n", line.c_str());
  return line.find("abc") != std::string::npos && line.find("5 exists") != std::string::npos ? 0 : 1;
}
