// Replay (pre-fix, see known_findings.json): the BASIC power operator computed x ^ y as exp(y * log(x)), which is inexact for integer operands:
// 2^3 = 7.999999999999998, so `2^3 = 8` was false, FLOOR(2^3) = 7, CEIL(10^2) = 101 and `FOR i = 1 TO 2^3` ran 7 times.
// cwd = /repo/database.  exit 1 when one of the four values differs from 1, 8, 100, 8.
#include "IPhreeqc.hpp"
#include <cstdio>
int main(){
  IPhreeqc p; p.LoadDatabase("phreeqc.dat");
  int e = p.RunString("SOLUTION 1\nSELECTED_OUTPUT 1\n -reset false\nUSER_PUNCH 1\n -headings eq floor ceil loops\n10 n = 0\n20 FOR i = 1 TO 2^3\n30 n = n + 1\n40 NEXT i\n"
                      "50 PUNCH (2^3 = 8), FLOOR(2^3), CEIL(10^2), n\nEND\n");
  if (e) { printf("%s", p.GetErrorString()); return 2; }
  double v[4]; for (int c = 0; c < 4; c++) { VAR a; VarInit(&a); p.GetSelectedOutputValue(1, c, &a); v[c] = a.type == TT_DOUBLE ? a.dVal : (double) a.lVal; VarClear(&a); }
  printf("(2^3 = 8) -> %g   FLOOR(2^3) = %g   CEIL(10^2) = %g   FOR i = 1 TO 2^3 ran %g times\n", v[0], v[1], v[2], v[3]);
  return v[0] == 1 && v[1] == 8 && v[2] == 100 && v[3] == 8 ? 0 : 1;
}
