// Replay (pre-fix, see known_findings.json): `ON k GOSUB l1, l2` with k outside 1..2 makes no jump, but cmdon had already pushed the GOSUB record:
// the stale record sat on top of the FOR record, so the valid program below stopped with "NEXT without FOR" at k = 0.
// Reference: subroutine 100 adds 1, subroutine 200 adds 10, k = 0 falls through: s = 11.  cwd = /repo/database.
#include "IPhreeqc.hpp"
#include <cstdio>
#include <cmath>
int main(){
  IPhreeqc p; if (p.LoadDatabase("phreeqc.dat")) return 2;
  const char* in =
   "SOLUTION 1\nSELECTED_OUTPUT 1\n -reset false\nUSER_PUNCH 1\n -headings s\n"
   " 10 s = 0\n 20 FOR k = 0 TO 3\n 30 ON k GOSUB 100, 200\n 40 NEXT k\n 50 PUNCH s\n 60 END\n"
   " 100 s = s + 1\n 110 RETURN\n 200 s = s + 10\n 210 RETURN\nEND\n";
  int rc = p.RunString(in);
  if (rc) { printf("FAIL: a valid program was rejected (%d): %s\n", rc, p.GetErrorString()); return 1; }
  VAR v; VarInit(&v); p.GetSelectedOutputValue(1, 0, &v); double s = v.dVal; VarClear(&v);
  printf("s = %g (reference 11)\n", s);
  if (fabs(s - 11) > 1e-12) { printf("FAIL\n"); return 1; }
  printf("OK\n"); return 0;
}
