// Replay (C07): a COPY request left over from a run that failed before copy_entities() survives LoadDatabase and is
// executed together with the next COPY block.  Build: see replays/README; run with cwd = /repo/database.
#include <cstdio>
#include <cstring>
#include "IPhreeqc.hpp"
static int tail(IPhreeqc& p)
{
	int a = p.RunString("SOLUTION 1\nSOLUTION 2\nCOPY solution 2 3\nEND\n");
	int b = p.RunString("USE solution 7\nREACTION 1\nNaCl 1\n1 mmol\nEND\n");
	printf("  copy-run rc=%d  use-solution-7 rc=%d  %s", a, b, b ? p.GetErrorString() : "(no error)\n");
	return b;
}
int main()
{
	IPhreeqc h, fresh;
	h.LoadDatabase("phreeqc.dat");
	int r = h.RunString("SOLUTION 1\nCOPY solution 1 7\nEQUILIBRIUM_PHASES 1\nNoSuchPhase 0 10\nEND\n");
	printf("failing run rc=%d\n", r);
	int l = h.LoadDatabase("phreeqc.dat");
	printf("reload rc=%d\nreloaded instance:\n", l);
	int b1 = tail(h);
	fresh.LoadDatabase("phreeqc.dat");
	printf("fresh instance:\n");
	int b2 = tail(fresh);
	if ((b1 == 0) != (b2 == 0)) { printf("C07 VIOLATED: the reloaded instance still executes the COPY request of the failed run\n"); return 1; }
	printf("OK\n");
	return 0;
}
