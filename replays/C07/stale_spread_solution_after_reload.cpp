// Replay (C07): SOLUTION_SPREAD rows without numbers read by a simulation that then fails at read time stay in
// Phreeqc::unnumbered_solutions; the tidy_model() of the next LoadDatabase turns them into numbered solutions.
// Run with cwd = /repo/database.
#include <cstdio>
#include <cstring>
#include <string>
#include "IPhreeqc.hpp"
static std::string tail(IPhreeqc& p)
{
	p.SetDumpStringOn(true);
	int a = p.RunString("DUMP\n-all\nEND\n");
	std::string d = p.GetDumpString();
	int b = p.RunString("USE solution 1\nREACTION 1\nNaCl 1\n1 mmol\nEND\n");
	printf("  dump rc=%d (%zu bytes)  use-solution-1 rc=%d  %s", a, d.size(), b, b ? p.GetErrorString() : "(no error)\n");
	return d;
}
int main()
{
	IPhreeqc h, fresh;
	h.LoadDatabase("phreeqc.dat");
	int r = h.RunString("SOLUTION_SPREAD\nNa Cl\n5 5\n7 7\nSOLUTION 9\n-nosuchoption 3\nEND\n");
	printf("failing run rc=%d\n%s", r, h.GetErrorString());
	int l = h.LoadDatabase("phreeqc.dat");
	printf("reload rc=%d\nreloaded instance:\n", l);
	std::string d1 = tail(h);
	fresh.LoadDatabase("phreeqc.dat");
	printf("fresh instance:\n");
	std::string d2 = tail(fresh);
	if (d1 != d2) { printf("C07 VIOLATED: the reloaded instance holds solutions of the failed run\n%s\n", d1.substr(0, 300).c_str()); return 1; }
	printf("OK\n");
	return 0;
}
