// Replay harness for the C07 candidates: each scenario gives instance A a history, reloads a database and runs a probe;
// instance B is fresh, loads the same database and runs the same probe.  All string channels + return values must agree.
// usage: reload_scenarios <database dir> [scenario]
#include "IPhreeqc.hpp"
#include <cstdio>
#include <cstring>
#include <string>
#include <vector>
struct Scenario { const char *name; const char *db1; std::vector<std::string> history; const char *db2; std::string probe; };
static std::string mask(std::string s) {
  // mask the elapsed-time banner (the dashed rules around it have the length of the banner text, so drop dashed lines too)
  size_t p;
  while ((p = s.find("End of Run after")) != std::string::npos) { size_t e = s.find('\n', p); s.erase(p, e == std::string::npos ? std::string::npos : e - p); }
  std::string out; size_t i = 0;
  while (i < s.size()) {
    size_t e = s.find('\n', i); if (e == std::string::npos) e = s.size();
    std::string line = s.substr(i, e - i);
    if (line.empty() || line.find_first_not_of('-') != std::string::npos) out += line + "\n";
    i = e + 1;
  }
  return out;
}
static std::string observe(IPhreeqc &p, const std::string &probe, int rc_load) {
  p.SetOutputStringOn(true); p.SetDumpStringOn(true); p.SetSelectedOutputStringOn(true); p.SetLogStringOn(true);
  int rc = p.RunString(probe.c_str());
  std::string o = "load=" + std::to_string(rc_load) + " run=" + std::to_string(rc) + "\n";
  o += "ERR:" + std::string(p.GetErrorString()) + "\nWARN:" + std::string(p.GetWarningString());
  o += "\nLOG:" + std::string(p.GetLogString()) + "\nOUT:" + mask(p.GetOutputString()) + "\nDUMP:" + std::string(p.GetDumpString()) + "\nSEL:" + std::string(p.GetSelectedOutputString());
  return o;
}
int main(int argc, char **argv) {
  std::string dir = argc > 1 ? argv[1] : "/repo/database";
  const char *only = argc > 2 ? argv[2] : 0;
  std::vector<Scenario> S = {
    {"rate_parameters_pk", "phreeqc.dat", {"RATE_PARAMETERS_PK\n Quartz 1 2 3 4 5 6 7 8\nEND\n"}, "phreeqc.dat",
       "SOLUTION 1\nUSER_PRINT\n10 PRINT \"pk \", RATE_PK(\"Quartz\")\nEND\n"},
    {"mean_gammas", "phreeqc.dat", {"MEAN_GAMMAS\n XyCl Na+ 1 Cl- 1\nEND\n"}, "phreeqc.dat",
       "SOLUTION 1\n Na 1\n Cl 1\nUSER_PRINT\n10 PRINT \"mg \", MEANG(\"XyCl\")\nEND\n"},
    {"stag_data", "phreeqc.dat", {"SOLUTION 0-2\nSOLUTION 4\nEND\nTRANSPORT\n -cells 2\n -shifts 1\n -stagnant 1 6.8e-6 0.3 0.1\n -time_step 100\nEND\n"}, "phreeqc.dat",
       "SOLUTION 0-2\n Na 1\n Cl 1\nSOLUTION 4\n K 1\n Cl 1\nEND\nTRANSPORT\n -cells 2\n -shifts 2\n -time_step 100\n -punch_cells 1-4\nSELECTED_OUTPUT\n -totals Na K\nEND\n"},
    {"dump_info", "phreeqc.dat", {"DUMP\n -all\nSOLUTION 1\n Xx 1\nEND\n"}, "phreeqc.dat", "SOLUTION 1\n Na 1\nEND\n"},
    {"delete_info", "phreeqc.dat", {"DELETE\n -all\nSOLUTION 1\n Xx 1\nEND\n"}, "phreeqc.dat", "SOLUTION 1\n Na 1\nEND\nUSE solution 1\nEND\n"},
    {"copy_lists", "phreeqc.dat", {"SOLUTION 1\nEND\nCOPY solution 1 5\nSOLUTION 2\n Xx 1\nEND\n"}, "phreeqc.dat", "SOLUTION 1\n Na 1\nEND\nUSE solution 5\nEND\n"},
    {"run_info", "phreeqc.dat", {"RUN_CELLS\n -cells 1\nSOLUTION 1\n Xx 1\nEND\n"}, "phreeqc.dat", "SOLUTION 1\n Na 1\nEND\n"},
    {"print_selected_output_false", "phreeqc.dat", {"SOLUTION 1\nPRINT\n -selected_output false\nEND\n"}, "phreeqc.dat",
       "SOLUTION 1\n Na 1\nSELECTED_OUTPUT\n -totals Na\nEND\n"},
    {"print_echo_input_false", "phreeqc.dat", {"SOLUTION 1\nPRINT\n -echo_input false\nEND\n"}, "phreeqc.dat", "SOLUTION 1\n Na 1\nEND\n"},
    {"print_dump_false", "phreeqc.dat", {"SOLUTION 1\nPRINT\n -dump false\nEND\n"}, "phreeqc.dat", "SOLUTION 1\n Na 1\nDUMP\n -all\nEND\n"},
    {"knobs_logfile", "phreeqc.dat", {"KNOBS\n -logfile true\nSOLUTION 1\nEND\n"}, "phreeqc.dat", "SOLUTION 1\n Na 1\nEND\n"},
    {"print_status_false", "phreeqc.dat", {"SOLUTION 1\nPRINT\n -status false\n -headings false\nEND\n"}, "phreeqc.dat", "SOLUTION 1\n Na 1\nEND\n"},
    {"rates_map_no_rates_db", "phreeqc.dat", {"SOLUTION 1\nKINETICS 1\nCalcite\n -m 1\n -parms 1 1\n -steps 1\nEND\n"}, "minimal_norates.dat",
       "SOLUTION 1\nKINETICS 1\nCalcite\n -formula CaCO3\n -m 1\n -steps 1\nEND\n"},
  };
  int bad = 0;
  for (auto &s : S) {
    if (only && std::strcmp(only, s.name)) continue;
    IPhreeqc a, b;
    a.LoadDatabase((dir + "/" + s.db1).c_str());
    for (auto &h : s.history) a.RunString(h.c_str());
    int la = a.LoadDatabase((dir + "/" + s.db2).c_str());
    int lb = b.LoadDatabase((dir + "/" + s.db2).c_str());
    std::string oa = observe(a, s.probe, la), ob = observe(b, s.probe, lb);
    if (oa == ob) std::printf("SAME  %s\n", s.name);
    else {
      ++bad;
      size_t i = 0; while (i < oa.size() && i < ob.size() && oa[i] == ob[i]) ++i;
      size_t st = i > 60 ? i - 60 : 0;
      std::printf("DIFF  %s\n   history+reload: ...%s\n   fresh:          ...%s\n", s.name,
                  oa.substr(st, 200).c_str(), ob.substr(st, 200).c_str());
    }
  }
  std::printf("%d scenario(s) differ\n", bad);
  return bad ? 1 : 0;
}
