// Replay (pre-fix, see known_findings.json): SOLUTION_SPREAD rows without a number wait in Phreeqc::unnumbered_solutions for tidy_solutions.
// A run that stops while reading never reaches tidy_solutions; neither clean_up nor init emptied the vector, so the next LoadDatabase adopted
// the stale solutions in its self-test run and crashed (SIGSEGV in trxn_add: their totals point into the freed species table).
// cwd = /repo/database.  exit 0: reload works and the follow-up run equals that of a fresh instance; pre-fix: killed by SIGSEGV (139).
#include "IPhreeqc.hpp"
#include <iostream>
#include <string>
int main(){
  IPhreeqc a, b;
  a.LoadDatabase("phreeqc.dat");
  int r = a.RunString("SOLUTION_SPREAD\n  Na   Cl\n  5.0  5.0\nINCLUDE$ no_such_file.inc\nEND\n");
  std::cout << "history run (must fail) rc=" << r << std::endl;
  r = a.LoadDatabase("phreeqc.dat");
  std::cout << "reload rc=" << r << std::endl;
  b.LoadDatabase("phreeqc.dat");
  const char *follow = "SOLUTION 7\n K 1\n Cl 1\nEND\nDUMP\n -all\nEND\n";
  a.SetDumpStringOn(true); b.SetDumpStringOn(true);
  int ra = a.RunString(follow), rb = b.RunString(follow);
  std::string da = a.GetDumpString(), db = b.GetDumpString();
  if (r != 0 || ra != rb || da != db) { std::cout << "reloaded instance differs from a fresh one\n" << da << "-----\n" << db; return 1; }
  std::cout << "identical\n"; return 0;
}
