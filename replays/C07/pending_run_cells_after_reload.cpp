// Replay (pre-fix, see known_findings.json): a RUN_CELLS request read by a run that then stops on an input error stays pending in
// Phreeqc::run_info, which neither clean_up() nor init() reset.  The self-test run of the next LoadDatabase (SOLUTION 0; DELETE) executed
// it: the output string of the load held a "Beginning of run as cells" section that a fresh instance's load does not have.
// cwd = /repo/database.  exit 1 when the output string after the reload differs from that of a fresh instance's load.
#include "IPhreeqc.hpp"
#include <cstdio>
#include <cstring>
#include <string>
int main(){
  IPhreeqc a, b;
  a.SetOutputStringOn(true); b.SetOutputStringOn(true);
  if (a.LoadDatabase("phreeqc.dat")) return 2;
  int rc = a.RunString("SOLUTION 0\nRUN_CELLS\n-cells 0\nEQUILIBRIUM_PHASES 1\nNoSuchPhase 0 0\nEND\n");
  printf("history run returned %d (expected: non-zero)\n", rc);
  if (a.LoadDatabase("phreeqc.dat")) return 2;
  if (b.LoadDatabase("phreeqc.dat")) return 2;
  std::string sa = a.GetOutputString(), sb = b.GetOutputString();
  printf("output lines after reload: %d, fresh instance: %d\n", a.GetOutputStringLineCount(), b.GetOutputStringLineCount());
  bool ran = strstr(sa.c_str(), "run as cells") != NULL;
  if (ran || a.GetOutputStringLineCount() != b.GetOutputStringLineCount()) { printf("FAIL: the load executed the RUN_CELLS request of the failed run\n"); return 1; }
  printf("OK\n"); return 0;
}
