#!/usr/bin/env python3
"""stage_seed.py <seed id, e.g. C03-5> <source dir with patch.diff demo.cpp notes.md> <rule> <instance_contains> <breaks> <needs_to_manifest>
Copies a sub-agent's seeded change into /verif/seeded/<id>/ and writes meta.json / expect.json (confirmation is a separate step:
tools/confirm_seeded.sh <scratch worktree> seeded/<id>)."""
import json, os, sys
sid, src, rule, inst, breaks, needs = sys.argv[1:7]
prop = sid.split("-")[0]
d = os.path.join(os.path.dirname(os.path.dirname(os.path.abspath(__file__))), "seeded", sid)
os.makedirs(d, exist_ok=True)
for fn in ("patch.diff", "demo.cpp", "notes.md"):
    open(os.path.join(d, fn), "w").write(open(os.path.join(src, fn)).read())
json.dump({"property": prop, "breaks": breaks, "needs_to_manifest": needs,
           "origin": "independent sub-agent working in a scratch worktree with the property text only",
           "confirmed": "tools/confirm_seeded.sh <scratch worktree> <dir>: suite passes with the change (ctest -j4, failures re-run serially), demo exit 0 on the unchanged tree, demo exit 1 with the change",
           "what_was_run": "cmake --build; ctest -j4 (+ --rerun-failed); g++ demo.cpp libIPhreeqcrwd.a; ./demo (cwd = database/)"},
          open(os.path.join(d, "meta.json"), "w"), indent=1)
json.dump({"property": prop, "expect": "violation", "rule": rule, "instance_contains": inst}, open(os.path.join(d, "expect.json"), "w"))
print("staged", d)
