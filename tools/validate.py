#!/usr/bin/env python3
"""validate MANIFEST.json and evidence/*.json against the harness schemas (uses the tooling venv's jsonschema)"""
import json, sys, glob
import jsonschema
m = json.load(open('/verif/MANIFEST.json'))
jsonschema.validate(m, json.load(open('/root/.vp/MANIFEST.schema.json')))
es = json.load(open('/root/.vp/EVIDENCE.schema.json'))
ids = [c['property_id'] for c in m['checks']]
for p in ids:
    jsonschema.validate(json.load(open('/verif/evidence/%s.json' % p)), es)
props = [json.loads(l)['id'] for l in open('/verif/properties.jsonl')]
na = [n['property_id'] for n in m.get('not_applicable', [])]
assert sorted(ids + na) == sorted(props), (ids, na)
print('valid: claimed', ids, 'n/a', na)
