#!/usr/bin/env python3
"""mkmutant.py <prop> <name> <file-relative-to-repo> <python-expr old> <python-expr new> [count] -- make mutants/<prop>/<name>.patch by exact
string replacement (must match exactly `count` (default 1) times) and write <name>.expect.json from --expect args.
usage: mkmutant.py C12 name src/x.cpp 'old' 'new' --rule C12.order5 --inst foo [--silent]"""
import difflib, json, os, sys
HERE = os.path.dirname(os.path.dirname(os.path.abspath(__file__)))
REPO = os.environ.get("VERIF_REPO", "/repo")
a = sys.argv[1:]
prop, name, rel, old, new = a[:5]
rest = a[5:]
rule = rest[rest.index("--rule") + 1] if "--rule" in rest else ""
inst = rest[rest.index("--inst") + 1] if "--inst" in rest else ""
count = int(rest[rest.index("--count") + 1]) if "--count" in rest else 1
silent = "--silent" in rest
src = open(os.path.join(REPO, rel), encoding="latin-1").read()
old = old.encode().decode("unicode_escape"); new = new.encode().decode("unicode_escape")
if src.count(old) != count:
    sys.exit("pattern occurs %d times, expected %d" % (src.count(old), count))
dst = src.replace(old, new)
d = "".join(difflib.unified_diff(src.splitlines(True), dst.splitlines(True), "a/" + rel, "b/" + rel, n=3))
os.makedirs(os.path.join(HERE, "mutants", prop), exist_ok=True)
open(os.path.join(HERE, "mutants", prop, name + ".patch"), "w", encoding="latin-1").write(d)
json.dump({"property": prop, "expect": "silent" if silent else "violation", "rule": rule, "instance_contains": inst},
          open(os.path.join(HERE, "mutants", prop, name + ".expect.json"), "w"))
print("wrote mutants/%s/%s.patch (%d lines)" % (prop, name, d.count("\n")))
