#!/bin/sh
# confirm_seeded.sh <worktree> <dir with patch.diff + demo.cpp> [extra demo args]
# Confirms in a scratch worktree of /repo: patch applies, library+tests build, suite passes with the change,
# demo fails with the change and passes without it.  Leaves the worktree clean.  Output: one summary line.
WT=$1; D=$2; shift 2
INC="-I$WT/src -I$WT/src/phreeqcpp -I$WT/src/phreeqcpp/common -I$WT/src/phreeqcpp/PhreeqcKeywords"
cd "$WT" || exit 2
git checkout -q -- . ; 
[ -d _build ] || cmake -S "$WT" -B "$WT/_build" -G Ninja -DCMAKE_BUILD_TYPE=RelWithDebInfo -DFETCHCONTENT_SOURCE_DIR_GOOGLETEST=/usr/src/googletest >/dev/null 2>&1
cmake --build _build -j 8 >/dev/null 2>&1 || { echo "RESULT $D base-build-failed"; exit 1; }
LIB=$(ls _build/libIPhreeqc*.a | head -1)
DEMO=$(ls $D/demo.cpp $D/demo.c 2>/dev/null | head -1)
FLAGS=$(cat $D/demo.flags 2>/dev/null)
g++ -O1 $FLAGS $INC $DEMO $LIB -lpthread -o /tmp/demo.$$ 2>/tmp/demo.$$.log || { echo "RESULT $D demo-build-failed"; cat /tmp/demo.$$.log | head; exit 1; }
( cd $WT/database && timeout 600 /tmp/demo.$$ "$@" >/tmp/demo.$$.base 2>&1 ); BASE=$?
git apply "$D/patch.diff" || { echo "RESULT $D patch-does-not-apply"; exit 1; }
cmake --build _build -j 8 >/dev/null 2>&1 || { echo "RESULT $D mutant-build-failed"; git checkout -q -- .; exit 1; }
ctest --test-dir _build -j4 --timeout 900 >/tmp/ct.$$ 2>&1 || ctest --test-dir _build --rerun-failed --timeout 900 >/tmp/ct.$$ 2>&1; CT=$?
g++ -O1 $FLAGS $INC $DEMO $LIB -lpthread -o /tmp/demo.$$ 2>/dev/null
( cd $WT/database && timeout 600 /tmp/demo.$$ "$@" >/tmp/demo.$$.mut 2>&1 ); MUT=$?
git checkout -q -- .
cmake --build _build -j 8 >/dev/null 2>&1
echo "RESULT $D tests_with_change_rc=$CT demo_base_rc=$BASE demo_mutant_rc=$MUT"
tail -3 /tmp/demo.$$.mut
rm -f /tmp/demo.$$ /tmp/demo.$$.* /tmp/ct.$$
