// ipqfacts - fact extractor for the IPhreeqc static verification framework.
//
// One process per translation unit.  Parses the unit with the real build flags (clang 14 libTooling) and
// writes ONE json file with:
//   records   classes/structs defined in project files (fields, bases, methods, special members)
//   enums     enumerations with evaluated enumerator values
//   globals   every variable with static storage duration defined in the unit (incl. function-local statics,
//             static data members) with type, const-ness, mutable-member information and initialiser tree
//   functions every function *defined* in a project file: meta data + a compact resolved statement tree
//   decls     documented declarations (raw doc comment) of functions declared in project headers
//
// The tree is "resolved": every reference carries the qualified name of the declaration it denotes, calls carry the
// resolved callee (qualified name + parameter types), implicit casts / parens are elided.  All rule logic lives in
// python (verif/engine); nothing here knows about properties.
//
// usage: ipqfacts <project-root> <out.json> <source> -- <compiler flags>

#include "clang/AST/ASTConsumer.h"
#include "clang/AST/ASTContext.h"
#include "clang/AST/Comment.h"
#include "clang/AST/DeclCXX.h"
#include "clang/AST/DeclTemplate.h"
#include "clang/AST/ExprCXX.h"
#include "clang/AST/RecursiveASTVisitor.h"
#include "clang/AST/StmtCXX.h"
#include "clang/Basic/SourceManager.h"
#include "clang/Frontend/CompilerInstance.h"
#include "clang/Frontend/FrontendAction.h"
#include "clang/Lex/Lexer.h"
#include "clang/Tooling/CommonOptionsParser.h"
#include "clang/Tooling/CompilationDatabase.h"
#include "clang/Tooling/Tooling.h"
#include "llvm/Support/JSON.h"
#include "llvm/Support/raw_ostream.h"

#include <fstream>
#include <map>
#include <set>
#include <string>

using namespace clang;
namespace json = llvm::json;

static std::string gRoot;   // project root, e.g. /repo/src
static std::string gOut;

namespace {

class Extractor {
public:
  explicit Extractor(ASTContext &C) : Ctx(C), SM(C.getSourceManager()), PP(C.getPrintingPolicy()) {
    PP.SuppressTagKeyword = true;
    PP.Bool = true;
    PP.SuppressUnwrittenScope = true;
  }

  ASTContext &Ctx;
  SourceManager &SM;
  PrintingPolicy PP;

  json::Array Records, Enums, Globals, Functions, Decls;
  std::set<const Decl *> SeenRecords, SeenEnums, SeenGlobals, SeenFuncs, SeenDecls;

  // ---------------------------------------------------------------- locations
  std::string fileOf(SourceLocation L) {
    if (L.isInvalid()) return "";
    SourceLocation E = SM.getExpansionLoc(L);
    PresumedLoc P = SM.getPresumedLoc(E);
    if (P.isInvalid()) return "";
    return P.getFilename();
  }
  unsigned lineOf(SourceLocation L) {
    if (L.isInvalid()) return 0;
    return SM.getExpansionLineNumber(L);
  }
  bool inProject(SourceLocation L) {
    std::string F = fileOf(L);
    if (F.empty()) return false;
    // normalise "a/../b"
    llvm::SmallString<256> P(F);
    llvm::sys::path::remove_dots(P, true);
    return llvm::StringRef(P).startswith(gRoot);
  }
  std::string relFile(SourceLocation L) {
    llvm::SmallString<256> P(fileOf(L));
    llvm::sys::path::remove_dots(P, true);
    llvm::StringRef R(P);
    if (R.startswith(gRoot)) {
      R = R.drop_front(gRoot.size());
      while (R.startswith("/")) R = R.drop_front(1);
    }
    return R.str();
  }
  std::string macroName(SourceLocation L) {
    // outermost macro whose expansion contains this location (the name the programmer wrote)
    if (!L.isMacroID()) return "";
    SourceLocation Cur = L;
    std::string Name;
    while (Cur.isMacroID()) {
      if (SM.isMacroArgExpansion(Cur)) {
        Cur = SM.getImmediateExpansionRange(Cur).getBegin();
        continue;
      }
      Name = Lexer::getImmediateMacroName(Cur, SM, Ctx.getLangOpts()).str();
      Cur = SM.getImmediateExpansionRange(Cur).getBegin();
    }
    return Name;
  }

  // ---------------------------------------------------------------- names / types
  std::string typeStr(QualType T) {
    if (T.isNull()) return "";
    return T.getAsString(PP);
  }
  std::string canonTypeStr(QualType T) {
    if (T.isNull()) return "";
    return T.getCanonicalType().getAsString(PP);
  }
  std::string qname(const NamedDecl *D) {
    if (!D) return "";
    std::string S;
    llvm::raw_string_ostream OS(S);
    D->printQualifiedName(OS, PP);
    OS.flush();
    return S;
  }
  std::string funcQName(const FunctionDecl *FD) {
    std::string S = qname(FD);
    if (const TemplateArgumentList *TAL = FD->getTemplateSpecializationArgs()) {
      S += "<";
      bool First = true;
      for (const TemplateArgument &A : TAL->asArray()) {
        if (!First) S += ",";
        First = false;
        std::string T;
        llvm::raw_string_ostream OS(T);
        A.print(PP, OS, true);
        OS.flush();
        S += T;
      }
      S += ">";
    }
    return S;
  }
  json::Array paramTypes(const FunctionDecl *FD) {
    json::Array A;
    for (const ParmVarDecl *P : FD->parameters()) A.push_back(typeStr(P->getType()));
    return A;
  }
  std::string funcId(const FunctionDecl *FD) {
    std::string S = funcQName(FD) + "(";
    bool First = true;
    for (const ParmVarDecl *P : FD->parameters()) {
      if (!First) S += ",";
      First = false;
      S += typeStr(P->getType());
    }
    S += ")";
    if (const auto *MD = dyn_cast<CXXMethodDecl>(FD))
      if (MD->isConst()) S += " const";
    return S;
  }

  // does a type (transitively by value) contain a `mutable` member?
  bool hasMutable(QualType T, int Depth = 0) {
    if (Depth > 6 || T.isNull()) return false;
    T = T.getCanonicalType();
    if (const auto *AT = dyn_cast<ArrayType>(T.getTypePtr())) return hasMutable(AT->getElementType(), Depth + 1);
    const CXXRecordDecl *RD = T->getAsCXXRecordDecl();
    if (!RD || !RD->hasDefinition()) return false;
    RD = RD->getDefinition();
    if (!inProject(RD->getLocation())) return false;  // std types: treated as not mutable through const
    for (const FieldDecl *F : RD->fields()) {
      if (F->isMutable()) return true;
      if (hasMutable(F->getType(), Depth + 1)) return true;
    }
    for (const CXXBaseSpecifier &B : RD->bases())
      if (hasMutable(B.getType(), Depth + 1)) return true;
    return false;
  }

  // const at every level that can be written through the object itself (arrays of const, const objects)
  bool isImmutableType(QualType T) {
    if (T.isNull()) return false;
    QualType C = T.getCanonicalType();
    while (const auto *AT = dyn_cast<ArrayType>(C.getTypePtr())) {
      if (C.isConstQualified()) return !hasMutable(C);
      C = AT->getElementType();
    }
    if (!C.isConstQualified()) return false;
    return !hasMutable(C);
  }

  // ---------------------------------------------------------------- expression tree
  const Expr *strip(const Expr *E) {
    while (E) {
      if (const auto *P = dyn_cast<ParenExpr>(E)) { E = P->getSubExpr(); continue; }
      if (const auto *I = dyn_cast<ImplicitCastExpr>(E)) { E = I->getSubExpr(); continue; }
      if (const auto *F = dyn_cast<FullExpr>(E)) { E = F->getSubExpr(); continue; }
      if (const auto *M = dyn_cast<MaterializeTemporaryExpr>(E)) { E = M->getSubExpr(); continue; }
      if (const auto *B = dyn_cast<CXXBindTemporaryExpr>(E)) { E = B->getSubExpr(); continue; }
      if (const auto *D = dyn_cast<CXXDefaultArgExpr>(E)) { E = D->getExpr(); continue; }
      if (const auto *D = dyn_cast<CXXDefaultInitExpr>(E)) { E = D->getExpr(); continue; }
      if (const auto *S = dyn_cast<SubstNonTypeTemplateParmExpr>(E)) { E = S->getReplacement(); continue; }
      break;
    }
    return E;
  }

  json::Value nul() { return nullptr; }

  // callee descriptors are interned per unit: a call node carries the index into "callees"
  json::Array Callees;
  std::map<std::pair<const FunctionDecl *, std::string>, int64_t> CalleeIdx;
  json::Value callee(const FunctionDecl *FD, const char *Kind) {
    auto Key = std::make_pair(FD, std::string(Kind));
    auto It = CalleeIdx.find(Key);
    if (It != CalleeIdx.end()) return It->second;
    int64_t Idx = (int64_t)Callees.size();
    CalleeIdx[Key] = Idx;
    Callees.push_back(calleeObj(FD, Kind));
    return Idx;
  }
  json::Value calleeObj(const FunctionDecl *FD, const char *Kind) {
    json::Object O;
    O["q"] = funcQName(FD);
    O["id"] = funcId(FD);
    O["k"] = Kind;
    if (const auto *MD = dyn_cast<CXXMethodDecl>(FD)) {
      O["cls"] = qname(MD->getParent());
      if (MD->isVirtual()) O["virt"] = true;
      if (MD->isConst()) O["const"] = true;
      if (MD->isStatic()) O["static"] = true;
    }
    O["proj"] = inProject(FD->getLocation());
    O["ret"] = typeStr(FD->getReturnType());
    return std::move(O);
  }

  json::Value expr(const Expr *E0) {
    const Expr *E = strip(E0);
    if (!E) return nul();
    unsigned L = lineOf(E->getBeginLoc());
    json::Array N;
    auto start = [&](const char *K) {
      N.push_back(K);
      N.push_back((int64_t)L);
    };

    if (const auto *CE = dyn_cast<CXXOperatorCallExpr>(E)) {
      start("Call");
      const FunctionDecl *FD = CE->getDirectCallee();
      if (FD) N.push_back(callee(FD, "op"));
      else { json::Object O; O["q"] = std::string("operator") + getOperatorSpelling(CE->getOperator()); O["k"] = "op"; N.push_back(std::move(O)); }
      N.push_back(nul());
      json::Array Args;
      for (const Expr *A : CE->arguments()) Args.push_back(expr(A));
      N.push_back(std::move(Args));
      N.push_back(macroName(E->getBeginLoc()));
      return std::move(N);
    }
    if (const auto *MC = dyn_cast<CXXMemberCallExpr>(E)) {
      start("Call");
      const CXXMethodDecl *MD = MC->getMethodDecl();
      bool Virt = false;
      if (MD && MD->isVirtual()) {
        // qualified call (Base::f()) is not dispatched
        const auto *ME = dyn_cast<MemberExpr>(strip(MC->getCallee()));
        Virt = !(ME && ME->hasQualifier());
      }
      if (MD) N.push_back(callee(MD, Virt ? "virtual" : "method"));
      else { json::Object O; O["q"] = "?"; O["k"] = "indirect"; N.push_back(std::move(O)); }
      N.push_back(expr(MC->getImplicitObjectArgument()));
      json::Array Args;
      for (const Expr *A : MC->arguments()) Args.push_back(expr(A));
      N.push_back(std::move(Args));
      N.push_back(macroName(E->getBeginLoc()));
      return std::move(N);
    }
    if (const auto *CE = dyn_cast<CallExpr>(E)) {
      start("Call");
      const FunctionDecl *FD = CE->getDirectCallee();
      if (FD) {
        N.push_back(callee(FD, "func"));
        N.push_back(nul());
      } else {
        json::Object O; O["q"] = "?"; O["k"] = "indirect";
        N.push_back(std::move(O));
        N.push_back(expr(CE->getCallee()));
      }
      json::Array Args;
      for (const Expr *A : CE->arguments()) Args.push_back(expr(A));
      N.push_back(std::move(Args));
      N.push_back(macroName(E->getBeginLoc()));
      return std::move(N);
    }
    if (const auto *ME = dyn_cast<MemberExpr>(E)) {
      const ValueDecl *VD = ME->getMemberDecl();
      if (const auto *FD = dyn_cast<FieldDecl>(VD)) {
        start("Member");
        N.push_back(qname(FD));
        N.push_back(expr(ME->getBase()));
        N.push_back(typeStr(FD->getType()));
        return std::move(N);
      }
      if (const auto *VarD = dyn_cast<VarDecl>(VD)) {  // static member through object
        start("Ref"); N.push_back("global"); N.push_back(qname(VarD)); N.push_back(typeStr(VarD->getType()));
        return std::move(N);
      }
      start("MemberFn"); N.push_back(qname(VD)); N.push_back(expr(ME->getBase()));
      return std::move(N);
    }
    if (const auto *DR = dyn_cast<DeclRefExpr>(E)) {
      const ValueDecl *VD = DR->getDecl();
      start("Ref");
      if (const auto *PV = dyn_cast<ParmVarDecl>(VD)) {
        N.push_back("param"); N.push_back(PV->getNameAsString()); N.push_back(typeStr(PV->getType()));
        N.push_back((int64_t)PV->getFunctionScopeIndex());
      } else if (const auto *V = dyn_cast<VarDecl>(VD)) {
        bool Static = V->hasGlobalStorage();
        N.push_back(Static ? "global" : "local");
        N.push_back(Static ? qname(V) : V->getNameAsString());
        N.push_back(typeStr(V->getType()));
        if (Static && V->isStaticLocal()) N.push_back("staticlocal");
      } else if (const auto *EC = dyn_cast<EnumConstantDecl>(VD)) {
        N.push_back("enum"); N.push_back(qname(EC)); N.push_back(typeStr(EC->getType()));
        N.push_back(EC->getInitVal().getExtValue());
      } else if (const auto *FD = dyn_cast<FunctionDecl>(VD)) {
        N.push_back("func"); N.push_back(funcQName(FD)); N.push_back(funcId(FD));
      } else {
        N.push_back("other"); N.push_back(qname(VD)); N.push_back(typeStr(VD->getType()));
      }
      return std::move(N);
    }
    if (const auto *IL = dyn_cast<IntegerLiteral>(E)) {
      start("Lit"); N.push_back("int");
      llvm::SmallString<32> S; IL->getValue().toString(S, 10, IL->getType()->isSignedIntegerType());
      N.push_back(S.str().str());
      return std::move(N);
    }
    if (const auto *FL = dyn_cast<FloatingLiteral>(E)) {
      start("Lit"); N.push_back("float");
      // the literal as spelled in the source (exact decimal text, needed for rational arithmetic)
      SourceLocation B = SM.getSpellingLoc(FL->getBeginLoc());
      llvm::SmallString<32> Buf;
      llvm::StringRef Txt = Lexer::getSpelling(B, Buf, SM, Ctx.getLangOpts());
      N.push_back(Txt.str());
      return std::move(N);
    }
    if (const auto *SL = dyn_cast<StringLiteral>(E)) {
      start("Lit"); N.push_back("str");
      if (SL->getCharByteWidth() == 1) N.push_back(SL->getString().str()); else N.push_back("<wide>");
      return std::move(N);
    }
    if (const auto *CL = dyn_cast<CharacterLiteral>(E)) {
      start("Lit"); N.push_back("char"); N.push_back(std::to_string(CL->getValue()));
      return std::move(N);
    }
    if (const auto *BL = dyn_cast<CXXBoolLiteralExpr>(E)) {
      start("Lit"); N.push_back("bool"); N.push_back(BL->getValue() ? "1" : "0");
      return std::move(N);
    }
    if (isa<CXXNullPtrLiteralExpr>(E) || isa<GNUNullExpr>(E)) {
      start("Lit"); N.push_back("null"); N.push_back("0");
      return std::move(N);
    }
    if (const auto *BO = dyn_cast<BinaryOperator>(E)) {
      start("Bin"); N.push_back(BO->getOpcodeStr().str());
      N.push_back(expr(BO->getLHS())); N.push_back(expr(BO->getRHS()));
      return std::move(N);
    }
    if (const auto *UO = dyn_cast<UnaryOperator>(E)) {
      start("Un");
      std::string Op = UnaryOperator::getOpcodeStr(UO->getOpcode()).str();
      if (UO->isPostfix()) Op = "post" + Op;
      N.push_back(Op); N.push_back(expr(UO->getSubExpr()));
      return std::move(N);
    }
    if (const auto *CO = dyn_cast<ConditionalOperator>(E)) {
      start("Cond"); N.push_back(expr(CO->getCond())); N.push_back(expr(CO->getTrueExpr())); N.push_back(expr(CO->getFalseExpr()));
      return std::move(N);
    }
    if (const auto *AS = dyn_cast<ArraySubscriptExpr>(E)) {
      start("Index"); N.push_back(expr(AS->getBase())); N.push_back(expr(AS->getIdx()));
      return std::move(N);
    }
    if (isa<CXXThisExpr>(E)) { start("This"); return std::move(N); }
    if (const auto *CE = dyn_cast<CXXConstructExpr>(E)) {
      const CXXConstructorDecl *CD = CE->getConstructor();
      // elide copy/move of a temporary
      if (CE->getNumArgs() == 1 && CD->isCopyOrMoveConstructor() && CE->isElidable()) return expr(CE->getArg(0));
      start("Construct");
      N.push_back(callee(CD, "ctor"));
      json::Array Args;
      for (const Expr *A : CE->arguments()) Args.push_back(expr(A));
      N.push_back(std::move(Args));
      return std::move(N);
    }
    if (const auto *EC = dyn_cast<ExplicitCastExpr>(E)) {
      start("Cast"); N.push_back(typeStr(EC->getTypeAsWritten())); N.push_back(expr(EC->getSubExpr()));
      return std::move(N);
    }
    if (const auto *NE = dyn_cast<CXXNewExpr>(E)) {
      start("New"); N.push_back(typeStr(NE->getAllocatedType()));
      N.push_back(NE->isArray() && NE->getArraySize() ? expr(*NE->getArraySize()) : nul());
      N.push_back(NE->getInitializer() ? expr(NE->getInitializer()) : nul());
      return std::move(N);
    }
    if (const auto *DE = dyn_cast<CXXDeleteExpr>(E)) {
      start("Delete"); N.push_back(expr(DE->getArgument()));
      return std::move(N);
    }
    if (const auto *TE = dyn_cast<CXXThrowExpr>(E)) {
      start("Throw");
      if (TE->getSubExpr()) { N.push_back(typeStr(strip(TE->getSubExpr())->getType().getUnqualifiedType())); N.push_back(expr(TE->getSubExpr())); }
      else { N.push_back(""); N.push_back(nul()); }
      return std::move(N);
    }
    if (const auto *IL = dyn_cast<InitListExpr>(E)) {
      start("InitList");
      json::Array A;
      const InitListExpr *Sem = IL->isSemanticForm() ? IL : (IL->getSemanticForm() ? IL->getSemanticForm() : IL);
      for (const Expr *X : Sem->inits()) A.push_back(expr(X));
      N.push_back(std::move(A));
      return std::move(N);
    }
    if (const auto *UE = dyn_cast<UnaryExprOrTypeTraitExpr>(E)) {
      start("Sizeof");
      Expr::EvalResult R;
      if (!E->isValueDependent() && E->EvaluateAsInt(R, Ctx)) N.push_back(R.Val.getInt().getExtValue()); else N.push_back(nul());
      N.push_back(UE->isArgumentType() ? typeStr(UE->getArgumentType()) : std::string("expr"));
      return std::move(N);
    }
    if (const auto *LE = dyn_cast<LambdaExpr>(E)) {
      start("Lambda"); N.push_back(stmt(LE->getBody()));
      return std::move(N);
    }
    if (const auto *SE = dyn_cast<StmtExpr>(E)) {
      start("StmtExpr"); N.push_back(stmt(SE->getSubStmt()));
      return std::move(N);
    }
    // generic fallback: keep children so no call / access is lost
    start("Other"); N.push_back(E->getStmtClassName());
    json::Array Ch;
    for (const Stmt *C : E->children()) {
      if (!C) continue;
      if (const auto *CE = dyn_cast<Expr>(C)) Ch.push_back(expr(CE)); else Ch.push_back(stmt(C));
    }
    N.push_back(std::move(Ch));
    return std::move(N);
  }

  json::Value varDecl(const VarDecl *V) {
    json::Array D;
    D.push_back(V->getNameAsString());
    D.push_back(typeStr(V->getType()));
    D.push_back(V->hasInit() ? expr(V->getInit()) : nul());
    D.push_back(V->isStaticLocal() ? "static" : "auto");
    // constant array extent (for bounded-copy census)
    if (const auto *CAT = Ctx.getAsConstantArrayType(V->getType())) D.push_back((int64_t)CAT->getSize().getZExtValue());
    else D.push_back(nul());
    return std::move(D);
  }

  json::Value stmt(const Stmt *S) {
    if (!S) return nul();
    if (const auto *E = dyn_cast<Expr>(S)) return expr(E);
    unsigned L = lineOf(S->getBeginLoc());
    json::Array N;
    auto start = [&](const char *K) { N.push_back(K); N.push_back((int64_t)L); };

    if (const auto *CS = dyn_cast<CompoundStmt>(S)) {
      start("Compound");
      json::Array B;
      for (const Stmt *C : CS->body()) B.push_back(stmt(C));
      N.push_back(std::move(B));
      return std::move(N);
    }
    if (const auto *IS = dyn_cast<IfStmt>(S)) {
      start("If");
      N.push_back(expr(IS->getCond()));
      N.push_back(stmt(IS->getThen()));
      N.push_back(stmt(IS->getElse()));
      N.push_back(IS->getInit() ? stmt(IS->getInit()) : (IS->getConditionVariableDeclStmt() ? stmt(IS->getConditionVariableDeclStmt()) : nul()));
      N.push_back(macroName(IS->getBeginLoc()));
      return std::move(N);
    }
    if (const auto *FS = dyn_cast<ForStmt>(S)) {
      start("For");
      N.push_back(stmt(FS->getInit())); N.push_back(expr(FS->getCond())); N.push_back(expr(FS->getInc())); N.push_back(stmt(FS->getBody()));
      return std::move(N);
    }
    if (const auto *RS = dyn_cast<CXXForRangeStmt>(S)) {
      start("RangeFor");
      N.push_back(varDecl(RS->getLoopVariable()));
      N.push_back(expr(RS->getRangeInit()));
      N.push_back(stmt(RS->getBody()));
      return std::move(N);
    }
    if (const auto *WS = dyn_cast<WhileStmt>(S)) {
      start("While"); N.push_back(expr(WS->getCond())); N.push_back(stmt(WS->getBody()));
      return std::move(N);
    }
    if (const auto *DS = dyn_cast<DoStmt>(S)) {
      start("Do"); N.push_back(stmt(DS->getBody())); N.push_back(expr(DS->getCond()));
      return std::move(N);
    }
    if (const auto *SS = dyn_cast<SwitchStmt>(S)) {
      start("Switch"); N.push_back(expr(SS->getCond())); N.push_back(stmt(SS->getBody()));
      return std::move(N);
    }
    if (const auto *CS = dyn_cast<CaseStmt>(S)) {
      start("Case");
      N.push_back(expr(CS->getLHS()));
      Expr::EvalResult R;
      if (CS->getLHS() && !CS->getLHS()->isValueDependent() && CS->getLHS()->EvaluateAsInt(R, Ctx)) N.push_back(R.Val.getInt().getExtValue());
      else N.push_back(nul());
      N.push_back(stmt(CS->getSubStmt()));
      return std::move(N);
    }
    if (const auto *DS = dyn_cast<DefaultStmt>(S)) {
      start("Default"); N.push_back(stmt(DS->getSubStmt()));
      return std::move(N);
    }
    if (const auto *RS = dyn_cast<ReturnStmt>(S)) {
      start("Return"); N.push_back(expr(RS->getRetValue()));
      return std::move(N);
    }
    if (isa<BreakStmt>(S)) { start("Break"); return std::move(N); }
    if (isa<ContinueStmt>(S)) { start("Continue"); return std::move(N); }
    if (const auto *GS = dyn_cast<GotoStmt>(S)) {
      start("Goto"); N.push_back(GS->getLabel()->getNameAsString());
      return std::move(N);
    }
    if (const auto *LS = dyn_cast<LabelStmt>(S)) {
      start("Label"); N.push_back(LS->getDecl()->getNameAsString()); N.push_back(stmt(LS->getSubStmt()));
      return std::move(N);
    }
    if (const auto *TS = dyn_cast<CXXTryStmt>(S)) {
      start("Try");
      N.push_back(stmt(TS->getTryBlock()));
      json::Array H;
      for (unsigned I = 0; I < TS->getNumHandlers(); ++I) {
        const CXXCatchStmt *C = TS->getHandler(I);
        json::Array One;
        One.push_back(C->getExceptionDecl() ? typeStr(C->getCaughtType()) : std::string("..."));
        One.push_back(stmt(C->getHandlerBlock()));
        One.push_back((int64_t)lineOf(C->getBeginLoc()));
        H.push_back(std::move(One));
      }
      N.push_back(std::move(H));
      return std::move(N);
    }
    if (const auto *DS = dyn_cast<DeclStmt>(S)) {
      start("Decl");
      json::Array A;
      for (const Decl *D : DS->decls()) {
        if (const auto *V = dyn_cast<VarDecl>(D)) {
          A.push_back(varDecl(V));
          if (V->isStaticLocal()) noteGlobal(V);
        }
      }
      N.push_back(std::move(A));
      return std::move(N);
    }
    if (isa<NullStmt>(S)) { start("Null"); return std::move(N); }
    if (const auto *AS = dyn_cast<AttributedStmt>(S)) return stmt(AS->getSubStmt());
    start("OtherStmt"); N.push_back(S->getStmtClassName());
    json::Array Ch;
    for (const Stmt *C : S->children()) if (C) Ch.push_back(stmt(C));
    N.push_back(std::move(Ch));
    return std::move(N);
  }

  // ---------------------------------------------------------------- declarations
  const FunctionDecl *CurFunc = nullptr;

  void noteGlobal(const VarDecl *V) {
    if (!V->hasGlobalStorage()) return;
    if (!V->isThisDeclarationADefinition() && !V->isStaticLocal()) return;
    if (!inProject(V->getLocation())) return;
    if (V->getType()->isDependentType()) return;
    if (!SeenGlobals.insert(V->getCanonicalDecl()).second) return;
    json::Object O;
    O["q"] = qname(V);
    O["name"] = V->getNameAsString();
    O["type"] = typeStr(V->getType());
    O["ctype"] = canonTypeStr(V->getType());
    O["file"] = relFile(V->getLocation());
    O["line"] = (int64_t)lineOf(V->getLocation());
    O["immutable"] = isImmutableType(V->getType());
    O["const"] = V->getType().isConstQualified();
    O["kind"] = V->isStaticLocal() ? "staticlocal" : (V->isStaticDataMember() ? "staticmember" : "namespace");
    if (V->isStaticLocal() && CurFunc) O["func"] = funcId(CurFunc);
    O["linkage"] = V->isExternallyVisible() ? "external" : "internal";
    O["tls"] = V->getTLSKind() != VarDecl::TLS_None;
    if (const auto *CAT = Ctx.getAsConstantArrayType(V->getType())) O["extent"] = (int64_t)CAT->getSize().getZExtValue();
    bool ConstInit = false;
    if (V->hasInit() && !V->getInit()->isValueDependent()) {
      ConstInit = V->getInit()->isConstantInitializer(Ctx, false);
    } else if (!V->hasInit()) ConstInit = true;  // zero-initialised
    O["constinit"] = ConstInit;
    O["init"] = V->hasInit() ? expr(V->getInit()) : nul();
    Globals.push_back(std::move(O));
  }

  void noteRecord(const CXXRecordDecl *RD) {
    if (!RD->isThisDeclarationADefinition()) return;
    if (!inProject(RD->getLocation())) return;
    if (RD->isDependentType() || RD->isLambda()) return;
    if (!SeenRecords.insert(RD).second) return;
    json::Object O;
    O["q"] = qname(RD);
    O["file"] = relFile(RD->getLocation());
    O["line"] = (int64_t)lineOf(RD->getLocation());
    O["kind"] = RD->isClass() ? "class" : (RD->isUnion() ? "union" : "struct");
    json::Array Bases;
    for (const CXXBaseSpecifier &B : RD->bases()) Bases.push_back(typeStr(B.getType()));
    O["bases"] = std::move(Bases);
    json::Array Fields;
    for (const FieldDecl *F : RD->fields()) {
      json::Object FO;
      FO["name"] = F->getNameAsString();
      FO["q"] = qname(F);
      FO["type"] = typeStr(F->getType());
      FO["ctype"] = canonTypeStr(F->getType());
      FO["line"] = (int64_t)lineOf(F->getLocation());
      FO["mutable"] = F->isMutable();
      FO["access"] = (int64_t)F->getAccess();
      if (const auto *CAT = Ctx.getAsConstantArrayType(F->getType())) FO["extent"] = (int64_t)CAT->getSize().getZExtValue();
      if (F->hasInClassInitializer() && F->getInClassInitializer()) FO["init"] = expr(F->getInClassInitializer());
      Fields.push_back(std::move(FO));
    }
    O["fields"] = std::move(Fields);
    json::Array Methods;
    for (const Decl *D : RD->decls()) {
      const FunctionDecl *FD = nullptr;
      if (const auto *MD = dyn_cast<CXXMethodDecl>(D)) FD = MD;
      else if (const auto *FT = dyn_cast<FunctionTemplateDecl>(D)) FD = FT->getTemplatedDecl();
      if (!FD || FD->isImplicit()) continue;
      const auto *MD = dyn_cast<CXXMethodDecl>(FD);
      if (!MD) continue;
      json::Object MO;
      MO["name"] = MD->getNameAsString();
      MO["id"] = funcId(MD);
      MO["access"] = (int64_t)MD->getAccess();
      MO["virtual"] = MD->isVirtual();
      MO["static"] = MD->isStatic();
      MO["const"] = MD->isConst();
      MO["deleted"] = MD->isDeleted();
      MO["defined"] = MD->isDefined();
      MO["line"] = (int64_t)lineOf(MD->getLocation());
      MO["ret"] = typeStr(MD->getReturnType());
      MO["params"] = paramTypes(MD);
      json::Array PN;
      for (const ParmVarDecl *P : MD->parameters()) PN.push_back(P->getNameAsString());
      MO["pnames"] = std::move(PN);
      if (isa<CXXConstructorDecl>(MD)) MO["special"] = cast<CXXConstructorDecl>(MD)->isCopyConstructor() ? "copyctor" : "ctor";
      else if (isa<CXXDestructorDecl>(MD)) MO["special"] = "dtor";
      else if (MD->isCopyAssignmentOperator()) MO["special"] = "copyassign";
      if (const RawComment *RC = Ctx.getRawCommentForDeclNoCache(MD)) MO["doc"] = RC->getRawText(SM).str();
      Methods.push_back(std::move(MO));
    }
    O["methods"] = std::move(Methods);
    O["userCopyCtor"] = RD->hasUserDeclaredCopyConstructor();
    O["userCopyAssign"] = RD->hasUserDeclaredCopyAssignment();
    O["userDtor"] = RD->hasUserDeclaredDestructor();
    Records.push_back(std::move(O));
  }

  void noteEnum(const EnumDecl *ED) {
    if (!ED->isThisDeclarationADefinition()) return;
    if (!inProject(ED->getLocation())) return;
    if (!SeenEnums.insert(ED).second) return;
    json::Object O;
    O["q"] = qname(ED);
    O["file"] = relFile(ED->getLocation());
    O["line"] = (int64_t)lineOf(ED->getLocation());
    json::Array A;
    for (const EnumConstantDecl *EC : ED->enumerators()) {
      json::Array One;
      One.push_back(EC->getNameAsString());
      One.push_back(EC->getInitVal().getExtValue());
      One.push_back(qname(EC));
      A.push_back(std::move(One));
    }
    O["enumerators"] = std::move(A);
    Enums.push_back(std::move(O));
  }

  void noteFunctionDecl(const FunctionDecl *FD) {
    // documented declarations in project headers (oracle for documented return values)
    if (!inProject(FD->getLocation())) return;
    if (FD->isImplicit()) return;
    if (FD->isDependentContext()) return;
    if (!SeenDecls.insert(FD).second) return;
    std::string F = relFile(FD->getLocation());
    bool Header = llvm::StringRef(F).endswith(".h") || llvm::StringRef(F).endswith(".hpp") || llvm::StringRef(F).endswith(".hxx");
    if (!Header) return;
    if (isa<CXXMethodDecl>(FD)) return;  // methods are in records
    json::Object O;
    O["q"] = funcQName(FD);
    O["id"] = funcId(FD);
    O["file"] = F;
    O["line"] = (int64_t)lineOf(FD->getLocation());
    O["ret"] = typeStr(FD->getReturnType());
    O["params"] = paramTypes(FD);
    json::Array PN;
    for (const ParmVarDecl *P : FD->parameters()) PN.push_back(P->getNameAsString());
    O["pnames"] = std::move(PN);
    O["externC"] = FD->isExternC();
    if (const RawComment *RC = Ctx.getRawCommentForDeclNoCache(FD)) O["doc"] = RC->getRawText(SM).str();
    Decls.push_back(std::move(O));
  }

  void noteFunctionDef(const FunctionDecl *FD) {
    if (!FD->doesThisDeclarationHaveABody()) return;
    if (!inProject(FD->getLocation())) return;
    if (FD->isDependentContext()) return;            // uninstantiated templates: visited through instantiations
    if (FD->isImplicit() || FD->isDefaulted()) return;
    if (!SeenFuncs.insert(FD).second) return;
    CurFunc = FD;
    json::Object O;
    O["q"] = funcQName(FD);
    O["id"] = funcId(FD);
    O["name"] = FD->getNameAsString();
    O["file"] = relFile(FD->getLocation());
    O["line"] = (int64_t)lineOf(FD->getBeginLoc());
    O["endline"] = (int64_t)lineOf(FD->getEndLoc());
    O["ret"] = typeStr(FD->getReturnType());
    O["params"] = paramTypes(FD);
    json::Array PN;
    for (const ParmVarDecl *P : FD->parameters()) PN.push_back(P->getNameAsString());
    O["pnames"] = std::move(PN);
    O["externC"] = FD->isExternC();
    O["static"] = FD->getStorageClass() == SC_Static;
    O["inst"] = FD->isTemplateInstantiation();
    if (const auto *MD = dyn_cast<CXXMethodDecl>(FD)) {
      O["cls"] = qname(MD->getParent());
      O["virtual"] = MD->isVirtual();
      O["const"] = MD->isConst();
      O["mstatic"] = MD->isStatic();
      O["access"] = (int64_t)MD->getAccess();
      json::Array Ov;
      for (const CXXMethodDecl *B : MD->overridden_methods()) Ov.push_back(funcId(B));
      O["overrides"] = std::move(Ov);
      if (const auto *CD = dyn_cast<CXXConstructorDecl>(MD)) {
        O["special"] = CD->isCopyConstructor() ? "copyctor" : "ctor";
        json::Array Inits;
        for (const CXXCtorInitializer *I : CD->inits()) {
          json::Array One;
          if (I->isAnyMemberInitializer()) { One.push_back("field"); One.push_back(qname(I->getAnyMember())); }
          else if (I->isBaseInitializer()) { One.push_back("base"); One.push_back(typeStr(QualType(I->getBaseClass(), 0))); }
          else { One.push_back("deleg"); One.push_back(""); }
          One.push_back(I->isWritten());
          One.push_back(expr(I->getInit()));
          One.push_back((int64_t)lineOf(I->getSourceLocation()));
          Inits.push_back(std::move(One));
        }
        O["inits"] = std::move(Inits);
      } else if (isa<CXXDestructorDecl>(MD)) O["special"] = "dtor";
      else if (MD->isCopyAssignmentOperator()) O["special"] = "copyassign";
    }
    if (const RawComment *RC = Ctx.getRawCommentForDeclNoCache(FD)) O["doc"] = RC->getRawText(SM).str();
    O["body"] = stmt(FD->getBody());
    Functions.push_back(std::move(O));
    CurFunc = nullptr;
  }
};

class Visitor : public RecursiveASTVisitor<Visitor> {
public:
  explicit Visitor(Extractor &E) : X(E) {}
  Extractor &X;
  bool shouldVisitTemplateInstantiations() const { return true; }
  bool shouldVisitImplicitCode() const { return false; }

  bool VisitCXXRecordDecl(CXXRecordDecl *RD) { X.noteRecord(RD); return true; }
  bool VisitEnumDecl(EnumDecl *ED) { X.noteEnum(ED); return true; }
  bool VisitVarDecl(VarDecl *V) {
    if (V->hasGlobalStorage() && !V->isStaticLocal()) X.noteGlobal(V);
    return true;
  }
  bool VisitFunctionDecl(FunctionDecl *FD) {
    X.noteFunctionDecl(FD);
    X.noteFunctionDef(FD);
    return true;
  }
};

class Consumer : public ASTConsumer {
public:
  void HandleTranslationUnit(ASTContext &Ctx) override {
    if (Ctx.getDiagnostics().hasErrorOccurred()) {
      llvm::errs() << "ipqfacts: parse errors, no facts written\n";
      return;
    }
    Extractor X(Ctx);
    Visitor V(X);
    V.TraverseDecl(Ctx.getTranslationUnitDecl());
    json::Object Root;
    SourceManager &SM = Ctx.getSourceManager();
    Root["tu"] = SM.getFileEntryForID(SM.getMainFileID())->getName().str();
    Root["records"] = std::move(X.Records);
    Root["enums"] = std::move(X.Enums);
    Root["globals"] = std::move(X.Globals);
    Root["functions"] = std::move(X.Functions);
    Root["decls"] = std::move(X.Decls);
    Root["callees"] = std::move(X.Callees);
    std::error_code EC;
    llvm::raw_fd_ostream OS(gOut + ".tmp", EC);
    if (EC) { llvm::errs() << "ipqfacts: cannot write " << gOut << "\n"; return; }
    OS << json::Value(std::move(Root));
    OS.close();
    std::rename((gOut + ".tmp").c_str(), gOut.c_str());
  }
};

class Action : public ASTFrontendAction {
public:
  std::unique_ptr<ASTConsumer> CreateASTConsumer(CompilerInstance &, llvm::StringRef) override {
    return std::make_unique<Consumer>();
  }
};

}  // namespace

int main(int argc, const char **argv) {
  if (argc < 5) {
    llvm::errs() << "usage: ipqfacts <project-root> <out.json> <source> -- <flags>\n";
    return 2;
  }
  gRoot = argv[1];
  gOut = argv[2];
  std::string Src = argv[3];
  int Dash = 4;
  if (std::string(argv[Dash]) != "--") { llvm::errs() << "ipqfacts: expected --\n"; return 2; }
  std::vector<std::string> Flags;
  for (int I = Dash + 1; I < argc; ++I) Flags.push_back(argv[I]);
  clang::tooling::FixedCompilationDatabase DB(".", Flags);
  clang::tooling::ClangTool Tool(DB, {Src});
  int RC = Tool.run(clang::tooling::newFrontendActionFactory<Action>().get());
  return RC;
}
