#!/usr/bin/env python3
"""Writes /verif/MANIFEST.json from the tables below (single place to edit claims)."""
import json, os
HERE = os.path.dirname(os.path.dirname(os.path.abspath(__file__)))

NOTE_COMMON = ("Trusted base: clang 14 parser/sema via libTooling (tools/ipqfacts.cc), the python rule engine "
               "(engine/*.py: CFG builder, structural must-analysis, call graph with class-hierarchy resolution), and the "
               "frozen tables under tables/ (each row re-validated against the declarations on every run). The verdict is "
               "computed from the current source of /repo only; nothing is executed. ")

CLAIMS = {
 "C03": dict(
  technique="exhaustiveness of convergence tests over the unknown-type chain of Phreeqc::residuals + exact rational comparison of the balance residuals + loop-domain / operand agreement in calc_ss_fractions",
  text=("C03 describes the fixed point of an inequality-constrained Newton iteration and is NOT decided as a whole. Decided is what the iteration may "
        "call converged and how solid-solution fractions are formed: (a) every branch of the chain over unknown types in Phreeqc::residuals that "
        "assigns residual[i] contains a test on it that sets converge = FALSE; (b) the exchange and surface balance residuals are x.moles - x.f "
        "(defined amount minus occupied equivalents) and are tested relative to the defined amount, the pure-phase and solid-solution residuals are "
        "x.f * ln 10 (type codes recovered from the set-up functions); (c) calc_ss_fractions sums the total and forms the fractions over the same "
        "component list from the same clamped amount (negative -> positive minimum), stores moles/total and log10 of the same quotient, selects the "
        "ideal model exactly when both Guggenheim parameters are zero, and ss_ideal sets log10 lambda = 0. NOT decided: SI = target / absent with "
        "SI <= target, dissolve_only / precipitate_only / force_equality, non-ideal solid solutions, initial exchanger / surface compositions."),
  note=NOTE_COMMON + "A partial claim labelled `other`: necessary conditions only; the equilibrium end state itself is a solver outcome."),
 "C01": dict(
  technique="exact rational-function comparison of the log K(T,P) formula and of paired read-out functions + reader/writer slot agreement on the log K record + unit discipline at every k_calc call site",
  text=("C01 as a whole is numerical and is NOT decided. Decided are the closed-form and table-agreement parts of three of its clauses: (a) 'the "
        "equilibrium constant the database text prescribes at the solution temperature' - Phreeqc::k_calc, the one function that turns a stored "
        "log K record into log K(T,P), equals logK_T0 - dH(298.15-T)/(ln10 R T 298.15) + A1 + A2 T + A3/T + A4 log10 T + A5/T^2 + A6 T^2 and the "
        "pressure term -dV 1e-9 (P-Pref)/(ln10 R T) as an exact rational function (locals inlined, R and ln 10 recognised by value, LOG_10 checked to "
        "be log(10.0)); every call of k_calc passes a Kelvin temperature (a Celsius quantity only as +273.15) and an atmosphere quantity times 101325; "
        "every reader of -log_k / -delta_h / -analytical_expression data stores into the record slot k_calc reads for it, the six analytical "
        "coefficients are consecutive enumerators filled in order; (b) 'SI = log IAP - log K' - each of the seven saturation-index computations "
        "accumulates IAP as coef * log a (la or lm + lg) and reports IAP - lk; (c) read-out consistency - ACT = 10^LA and GAMMA = 10^LG branch by "
        "branch, LA = lm + lg, SR = 10^SI, pH writers print -la(H+). NOT decided: mass action of every species at the reported solution, element "
        "totals, charge balance, ionic strength, alkalinity (all properties of the numerical solution), reaction rewriting, delta_h unit conversion."),
  note=NOTE_COMMON + "Comparison is by polynomial identity (engine/ratfun.py); algebraically equivalent rewrites pass (benign mutant kept). A partial claim labelled `other`."),
 "C02": dict(
  technique="kind coverage/coherence of the assemble (step), write-back (saver) and totalise (cxxSystem::totalize, entity totalize) drivers",
  text=("Deliberately narrow static claim about the skeleton that conservation rests on, not about conservation itself: (a) Phreeqc::step adds "
        "every reacting part that is present - solution or mix (else a STOP error), reaction, kinetics, exchange, surface, gas phase, pure phases, "
        "solid solutions - exactly once, each through the add_<kind> helper of the same kind under a guard on that kind's use pointer, and applies "
        "the step's temperature and pressure under their own guards; (b) Phreeqc::saver has one block per result flag of class save, each calling "
        "x<kind>_save of the same kind on the same kind's store and number range (flags nobody reads are reported as unused inputs); (c) "
        "cxxSystem::totalize adds each element-carrying part once with coefficient 1 (the solution with H, O and charge), and every entity "
        "totalize() clears its totals and adds all components in one loop that cannot skip a component, charge included. A dropped, duplicated or "
        "crossed part breaks the element/charge balance of every step that contains that part. NOT decided: the arithmetic inside each part "
        "(dropped term, wrong coefficient, sign error in add_*/x*_save), non-negativity, and conservation as a numerical fact."),
  note=NOTE_COMMON + "Kind vocabulary derived from the store types (engine/kinds.py). The claim is labelled `other`; it does not establish conservation."),
 "C04": dict(
  technique="sibling agreement of the delivery entry points (event sequences, handler ladders, tails) + phase-list agreement between do_run and run_simulations + who-may-write census of engine state on the per-call path + control-dependence restriction on the per-call forced flag",
  text=("Static structural analysis of how input reaches the engine. Decided: (a) RunString, RunFile and RunAccumulated execute the same event sequence "
        "(calls on the instance/engine and field writes) inside their try blocks, the same handler ladders and the same tails, up to the stream "
        "construction and the accumulated-lines bookkeeping, and AccumulateLine honours the lazy-clear flag before appending; (b) per simulation, "
        "IPhreeqc::do_run calls the same ordered list of engine phases under the same engine-side guards as Phreeqc::run_simulations, the stand-alone "
        "loop compiled into the library; (c) the engine state the wrapper writes on the per-call path is exactly a frozen transient set (simulation "
        "counter, first_read_input, error counter, pr.all, punch streams, the forced heading flag ...) - no definition store is written per call; "
        "(d) engine code that is control-dependent on the only per-call forced flag (SelectedOutput::new_def of an engine-resident block) writes no "
        "SelectedOutput data and no engine member other than print/punch switches and cursors, so cutting the input into calls can only change when "
        "headings are written. Necessary conditions of 'results depend only on the input text'. NOT decided: equality of observable results over all "
        "cut points (whether a legitimately per-call variable leaks into results is behavioural)."),
  note=NOTE_COMMON + "Frozen table: c04_percall.json (13 transient engine writes, 4 members the forced-flag region may write, each with a reason; rows that no "
       "longer match a write are reported as analysis-broken)."),
 "C05": dict(
  technique="tri-sink must-pass-through shape analysis + sibling (overload-family) structural agreement + who-may-call/who-may-write census + guarded-index and padding shape rules + enum-total switches",
  text=("Static structural analysis of the selected-output path (IPhreeqc.cpp, CSelectedOutput.cpp, Var.c, PHRQ_io.cpp, PHRQ_io_output.cpp). Decided: "
        "(a) every punched value reaches file, string and table through one call: each IPhreeqc::fpunchf overload forwards the same (name, format, "
        "value) to PHRQ_io::fpunchf, to the block's string under exactly get_sel_out_string_on(block) && punch_on, and unconditionally to the block's "
        "table through the PushBack matching the value type, all keyed by the block being punched; punch_msg and the end-of-row event likewise; "
        "(b) the overload families of the punch path (IPhreeqc/PHRQ_io/Phreeqc fpunchf, fpunchf_user, the file and string fpunchf_helper, typed "
        "PushBack wrappers) are structurally identical modulo the value type; (c) only that path writes table cells, appends to the strings or "
        "writes the file stream; (d) CSelectedOutput::Get clears the VAR, range-checks row and column (>= count and < 0) before any subscript and "
        "returns TT_ERROR with the matching code; GetSelectedOutputValue maps every VRESULT and returns an error-typed VAR for an unknown user "
        "number (defect replayed and fixed); (e) late columns are padded to the row count, EndRow pads every column; (f) VarClear/VarCopy are total "
        "over VAR_TYPE and deep-copy strings. Necessary conditions of 'table, string, lines and file describe the same data'. NOT decided: that a "
        "text cell equals the table value rendered in the block's format, row-count arithmetic over all block shapes, file content on disk."),
  note=NOTE_COMMON + "Sibling agreement compares normal forms of the resolved statement trees (engine/shape.py: line numbers, casts and the value parameter "
       "abstracted). CSelectedOutput::DeSerialize is the one allowed extra producer of table cells (rebuilds a table from its serialized form)."),
 "C08": dict(
  technique="exit/throw census against a computed must-throw set + boundary handler-shape analysis + error-counter writer census + increment/message pairing + keyword table/dispatch agreement + bounded-copy census (destination extents vs proven store bound)",
  text=("Static structural analysis of the error discipline of the whole library. Decided: (a) every exit/abort call is unreachable - the statement "
        "immediately before it never returns (membership in a computed must-throw set: functions all of whose paths end in a throw, and calls of "
        "error_msg-style functions with a constant true stop argument) - or lies outside the call graph of the API; (b) every throw expression "
        "throws one of the three Stop types and a bare `throw;` occurs only inside a handler; (c) in the five run/load entry points no call that may "
        "throw is made outside the try, IPhreeqcStop is caught first and not re-thrown, IPhreeqc::error_msg throws IPhreeqcStop whenever stop is "
        "true, the tail closes files, resynchronises the error views and returns get_input_errors(); reporters are cleared before the engine runs; "
        "(d) an ERROR recorded makes the return value non-zero: io_error_count++ on every path of PHRQ_io::error_msg, the counters are reset to zero "
        "only by the frozen start-of-call set, get_input_errors combines both; (e) every input_error increment in a calculation phase has an "
        "error_msg call in its innermost block, reader-side increments are backed by tidy_model's end-of-input STOP; (f) every keyword enumerator "
        "has a name and a read_input case, unknown keyword is a STOP error; (g) copy_token(char*) stores at most MAX_LENGTH-1 characters and each of "
        "its 124 callers passes an array of at least MAX_LENGTH bytes; no unbounded libc writer targets a fixed array. Three crash/abort defects "
        "found by these rules were replayed and fixed. Known findings: the boundary re-throws exceptions other than IPhreeqcStop. NOT decided: "
        "memory safety and absence of undefined behaviour for all byte sequences in general - outside what these analyses can establish."),
  note=NOTE_COMMON + "Frozen tables: c08_counters.json (who may reset the counters), c08_pair_exempt.json (one defensive increment). Virtual calls are resolved by "
       "class-hierarchy analysis; a virtual call is never-returning only if every override is. std-library calls that may throw (substr, at, sto*) are "
       "censused in the evidence as information, not decided."),
 "C09": dict(
  technique="dual-sink forwarding shape of every *_msg override and base + who-may-write census + guarded-index rule on the six line accessors + rebuild pairing + post-dominance of update_errors() over every reporter mutation (with caller obligations)",
  text=("Static structural analysis of the output channels (output, log, punch, dump, error, warning). Decided per message: (a) each IPhreeqc::*_msg "
        "override passes its text unmodified to the string sink under `<X>StringOn && <x>_on` and to the file sink (unconditional base call, or "
        "the direct error_ostream write under `error_ostream != NULL && error_on`); each PHRQ_io base writes under `<x>_ostream != NULL && <x>_on` "
        "only - so a disabled sink receives nothing and two enabled sinks the same bytes; (b) no other function appends to OutputString/LogString/"
        "DumpString or writes the streams; (c) dump file and dump string come from the same generator; (d) each Get*StringLine(n) is guarded by "
        "`n < 0 || n >= count` on the vector it subscripts and every <X>Lines vector is rebuilt from <X>String by a getline loop; (e) every function "
        "that clears or appends to the error/warning reporters reaches update_errors() on all normal paths (non-public helpers: at every call "
        "site), and the run/load entry points resynchronise after their try/catch ladder - three entry points and AddError/AddWarning/"
        "AccumulateLine violated this and were fixed after concrete replays; (f) per-user-number sink switches are keyed by the block written "
        "(known finding: get_sel_out_string_on). NOT decided: that toggling sinks leaves results unchanged, byte identity of files on disk."),
  note=NOTE_COMMON + "Known finding shared with C13 (get_sel_out_string_on ignores its parameter; the existing suite depends on it)."),
 "C06": dict(
  technique="static-storage census + lock typestate dataflow on per-function CFGs + who-may-call census + compile-fail witnesses",
  text=("Static structural analysis of the whole library (82 units): (a) census of every variable with static storage - "
        "each is immutable, never written after initialisation, or a mutex/registry object; (b) all-paths typestate "
        "(path-insensitive forward dataflow over the CFG of every function that locks or touches guarded objects): "
        "registry accesses only under map_lock, ::qsort only under qsort_lock, lock/unlock balanced on every path, no "
        "nested acquisition, no call from a locked region into code that may lock; (c) id counter only post-incremented; "
        "(d) clock/random/env calls only at the status/elapsed-time sites; (e) IPhreeqc not copyable (compile-fail "
        "witness). These are necessary conditions of the property (each violation yields a race, deadlock, id clash or "
        "run-to-run difference for some schedule); absence of data races as an observed fact and bitwise identity of "
        "floating-point output are NOT decided."),
  note=NOTE_COMMON + "Over-approximation: the typestate is path-insensitive (may report infeasible paths, cannot miss a feasible one "
       "inside the analysed functions); accesses through aliases of the registry (none exist: it is a private static member) "
       "are not tracked. Known findings: 21 file-scope variables of transport.cpp (see known_findings.json)."),
 "C07": dict(
  technique="reset-completeness: interprocedural structural must-write analysis over every member of Phreeqc and IPhreeqc/PHRQ_io along the reload sequence; dominance of the reload steps; mirror-flag pairing",
  text=("Static structural analysis of the reload path: the universe is every data member of class Phreeqc (593) and of IPhreeqc "
        "with its PHRQ_io base (71), taken from the class definitions on every run. Each member must be re-initialised on every "
        "normal-completion path of clean_up(); init(); do_initialize() (engine) resp. UnLoadDatabase() + test_db() (wrapper) - "
        "computed by a must-write analysis that is sound for must (if = intersection, loops = nothing unless constant bounds, "
        "early exits stop accumulation, resolved callees summarised) - or be listed in an exemption table whose secondary "
        "obligation is re-checked (named builder/consumer must-writes it, all accesses confined to named functions, never read, "
        "documented survivor). Also: UnLoadDatabase dominates read_database, the three reset calls are unconditional and ordered, "
        "the self-test run is on the success path, and engine options mirrored into PHRQ_io flags are written in pairs. This is a "
        "necessary condition of the property (a member the reload does not rewrite and a run can change yields a differing "
        "(history, follow-up) pair - five such defects were replayed and fixed); equality of results after the load beyond "
        "reset completeness is NOT decided."),
  note=NOTE_COMMON + "The must-analysis may under-approximate (then a member needs a table row, never a missed gap). Rows of class "
       "guarded/unconfirmed carry a reason only (human judgement; the unconfirmed ones are listed in DESIGN.md as suspected but "
       "unreproduced). Cover methods trusted by name: clear/assign/resize/erase()/swap/init/Clear/Reset/SetAll."),
 "C13": dict(
  technique="API-matrix table agreement + forwarder-shape analysis of every C/Fortran wrapper + guarded-copy shape of padfstring + setter/getter field pairing",
  text=("Static structural analysis of the three binding layers, rebuilt from the current source on every run: (a) the "
        "four-layer API matrix (IPhreeqc.h declarations, IPhreeqcLib.cpp definitions, IPhreeqc methods, *F glue, F90 BIND(C) "
        "blocks and PARAMETER constants) is complete up to a frozen holes table; (b) each of the 75 C functions with an id is a "
        "pure forwarder: GetInstance(id), one call of the same-named method with the parameters in order (adapter != 0 for "
        "int->bool), result forwarded / mapped 0|1 / translated by a like-named VRESULT->IPQ_RESULT switch that covers every "
        "code the method can return; the non-live path calls no project code, writes nothing and returns IPQ_BADINSTANCE / a "
        "non-positive constant / a non-null constant string; (c) each *F function forwards *id and its arguments to the C "
        "function with exactly the nine documented 1-based->0-based shifts, strings through padfstring, and converts a VAR "
        "exactly as GetSelectedOutputValue2 does; (d) padfstring never stores more than *len bytes and reports strlen(src); "
        "(e) ids are never reused and DestroyIPhreeqc deletes only a live instance; (f) every setter stores its parameter in the "
        "field its getter reads (per-user-number maps keyed by the current user number), name setters ignore null/empty, "
        "constructor defaults as documented. This property is about code shape, so the structural clauses are the property; "
        "not decided: the body of the Fortran module (no Fortran front end: binding table only)."),
  note=NOTE_COMMON + "Oracle: the layers against each other and the doc comments of IPhreeqc.h (parsed by clang). Frozen tables: "
       "c13_api_holes.json, c13_fortran_shifts.json, c13_store.json. Known finding: get_sel_out_string_on ignores its parameter."),
 "C10": dict(
  technique="writer/reader table agreement (dump_raw option words resolved with find_option's own semantics against vopts and read_raw's switch) + field pairing + field-coverage census + Serialize/Deserialize stream symmetry + keyword/kind dispatch coherence",
  text=("Static structural analysis of the 20 RAW-format classes, the 20 binary-stream classes and the DUMP / *_RAW / *_MODIFY drivers, rebuilt "
        "from the current source on every run; the writer is the oracle for the reader and vice versa. Decided: (a) every option word "
        "dump_raw writes resolves - with the matching semantics read from CParser::find_option itself - to a case of read_raw that stores into "
        "the object; (b) the member streamed after an option is the member that case stores the parsed value into (constant array indices "
        "included); (c) case labels lie inside the vopts table; (d) every data member of each class is written by dump_raw (or its parent) "
        "and carried by Serialize, or is exempt with a reason whose supporting fact is re-checked (never read / recomputed by named builders "
        "/ definition flag); (e) Serialize and Deserialize are mirror images per channel (count, order, loop depth, conditionality, member); "
        "(f) the keyword a class writes is dispatched by read_input to that class, that kind's store and that kind's Rxn_new set, MODIFY "
        "likewise; dump_ostream has exactly one coherent block per kind and StorageBinList::GetAllItems / Read reach every kind once. These "
        "are necessary conditions of the property (a written-but-not-read, crossed, dropped or unreachable member loses state on restore - "
        "three such defects were replayed against the library and fixed). NOT decided: textual fixed point of dump-read-dump (number "
        "formatting) and equality of follow-up results beyond field agreement."),
  note=NOTE_COMMON + "Frozen tables: c10_undumped.json, c10_unserialized.json (each row re-validated: member exists; 'never-read' rows: no reader outside "
       "the class; 'derived' rows: the named builders write the member). The writer model follows locals through their initialisers and const "
       "getters one level deep; the reader model distinguishes stored values from error-branch defaults and follows locals into members. "
       "Thorough tier adds the storage-bin bulk-copy drivers (C10.bulk)."),
 "C14": dict(
  technique="kind coherence/coverage analysis of the COPY/DELETE/SAVE/USE drivers (kinds derived from the store types) + per-kind request consumption (ordering and post-dominance) + copy-completeness of user-provided copy operations + staleness-flag dominance",
  text=("Static structural analysis of the keyed-store drivers. The eleven reactant kinds are derived from the repository (Phreeqc::Rxn_<kind>_map "
        "store types, cross-checked against StorageBinList and the copier members). Decided: (a) in delete_entities, copy_entities, saver, set_use, "
        "reinitialize and list_components every per-kind block touches exactly one kind (request list, store, helper and class all of the same "
        "kind, established from types and member names) and the union of kinds is the expected set (exceptions frozen with reasons); (b) in "
        "read_copy, read_use and read_save the kind named by each `case KEY_<KW>` label is the only kind its body touches, the `cell` case covers "
        "every kind exactly once; (c) one-shot requests are consumed by the operation that executes them - copier_clear of the same kind after "
        "each copy loop, SetAll(false) post-dominating every request-executing statement of delete_entities and dump_ostream; (d) user-provided "
        "copy operations of entity classes copy every data member, implicitly copied classes hold no owning raw pointer, Rxn_copy renumbers the "
        "copy; (e) every run marks the component list stale before the engine runs and ListComponents refreshes iff stale. Necessary conditions "
        "of 'each operation touches exactly the named (kind, number) entries' and 'the component list reflects all reactants' (one defect of the "
        "latter was replayed and fixed). NOT decided: number-range arithmetic, sequencing over arbitrary histories."),
  note=NOTE_COMMON + "Frozen table: c14_expected.json (driver list, per-driver exceptions and the two multi-kind guard statements of set_use, each with a reason). "
       "Kind tagging by member/method names uses the stems derived from the store names plus a fixed alias list (equilibrium_phases, solid_solutions, "
       "reaction_temperature ...)."),
 "C11": dict(
  technique="shift-direction rule on the in-place advective copy loops (affine index analysis) + exact rational water-balance identity of every generated mixing recipe",
  text=("Two structural clauses of C11 are decided statically. (2) 'element amounts are moved, never created': every mixing recipe the transport "
        "code generates itself (mobile/stagnant exchange of -stagnant 1, dispersion recipes of init_mix) returns the target cell its own water - "
        "the factors weighted by the water of the source cells sum to the water of the target cell as an exact rational identity in the code's "
        "symbols (for equal cells: the factors sum to 1). (1) 'with pure advection the solution in cell i after a shift equals the previous solution of "
        "its upstream neighbour': every in-place shift loop over the solution store (ADVECTION, TRANSPORT column shift) copies cell i-d into cell i "
        "and must update its loop variable by -d (symbolically in d = 1 or +-ishift) and start at the downstream end, so that each source cell is "
        "read before it is overwritten. A loop walking with the copy direction would smear the inflow solution through the whole column in one "
        "shift. Everything else in C11 (conservation of the column inventory, mixing-factor arithmetic, convexity, stagnant zones, multicomponent "
        "diffusion, boundary conditions) quantifies over run-time numbers and is NOT decided; the file-scope state of transport.cpp is reported "
        "under C06."),
  note=NOTE_COMMON + "A deliberately minimal claim (2 shift loops, 4 generated recipes). It says nothing about user-given MIX factors, multicomponent diffusion or boundary cells."),
 "C12": dict(
  technique="Butcher-tableau extraction by reaching-definition dataflow on the CFG of rk_kinetics + exact rational order conditions (rooted trees to order 5) + step-bookkeeping shape",
  text=("Static analysis of Phreeqc::rk_kinetics only (the explicit integrator): the stage formulas Set_moles(sum a_sj*k_j), the stage "
        "times rate_sim_time = start + h_sum + c_s*h, the accepted-step weights, the error-estimate weights and the three low-order "
        "exits are extracted from the resolved syntax tree by a reaching-definition dataflow over the function's CFG (every "
        "definition reaching a stage must agree) and evaluated in exact rational arithmetic from the literals as spelled. Decided: "
        "row sums equal the stage abscissae; the 17 rooted-tree order conditions up to order 5 for the accepted weights; the 8 "
        "conditions up to order 4 for b - dc and sum dc = 0 (the error estimate is the difference of two consistent schemes); low-order "
        "exits sum to 1; the integrated time advances by h exactly once and only on the accepted branch, the step is clamped to the "
        "remaining time, and the final rate time is start + kin_time. A changed Runge-Kutta coefficient, stage index, stage time or a "
        "moved time accumulation - the mutations the property names - violate one of these exactly; they are necessary conditions of "
        "'agrees with the exact solution within tolerance for every rate law'. NOT decided: step-size control constants, the CVODE "
        "path, non-negativity, time bookkeeping outside rk_kinetics, and the tolerance claim itself."),
  note=NOTE_COMMON + "Assumption recorded in the evidence: the per-component loops are analysed for one generic component (their bodies only touch "
       "component j). If rk_kinetics is restructured so that stage formulas are no longer linear combinations of rk_moles the check "
       "exits 2 (analysis broken), never 0."),
 "C17": dict(
  technique="token-table/dispatch agreement + enum layout under bit masks + operator masks evaluated from enumerator values + operator/operation table + precedence call chain",
  text=("Static structural analysis of the BASIC interpreter (PBasic.cpp). Decided: (a) every token the tokenizer can produce has a listtokens case and "
        "exactly one consumer role (statement of exec, function of factor, operator level, syntactic token that some parser tests, or the error token "
        "that reaches the snerr default), no spelling maps to two tokens; (b) every token used in a `1L << tok` mask has a value < 32 and the relational "
        "tokens are six consecutive values in the order the range mask of relexpr relies on; (c) the operator masks, evaluated from the enumerator "
        "values, are exactly: relational loop {=,<,>,<=,>=,<>}; in both the string and the numeric branch equal->{=,>=,<=}, less->{<,<=,<>}, "
        "greater->{>,>=,<>}; term {*,/,MOD}; sexpr {+,-}; expr {OR,XOR}; (d) each operator branch applies the matching C++ operation (*=, guarded /=, "
        "fmod, += / strcat, -=, exp(y log x), &, |, ^, unary - and ~); (e) the precedence chain expr>andexpr>relexpr>sexpr>term>upexpr>factor is "
        "strict. Necessary conditions of 'standard arithmetic, string and control-flow semantics': a wrong mask, operator, precedence level or an "
        "unhandled token yields a wrong value for some program. NOT decided: arithmetic/string results for all programs, error reporting for all "
        "malformed programs."),
  note=NOTE_COMMON + "Frozen table: c17_roles.json (seven syntactic tokens - each re-checked to be tested by some statement parser -, the error token, three tokens "
       "with two legitimate roles). If the evaluator is re-architected so that the `k == tok...` / mask patterns vanish the check exits 2."),
 "C15": dict(
  technique="antisymmetry-by-construction analysis of every qsort comparison callback + sort-key/search-key agreement + exact rational classification of cxxSolution::add into extensive and water-fraction-weighted intensive members, cross-checked with cxxSolution::multiply",
  text=("C15 is a metamorphic property over pairs of runs and is NOT decided as a whole. Two of its named mechanisms are structural and are "
        "decided: (a) 'order-independent storage (sorted lists)': each of the functions handed to qsort applies the same accessor to both "
        "operands in every comparison that relates them, derives its per-operand locals by the same expressions, and returns mirrored signs for "
        "mirrored tests; every list searched with bsearch is searched by the accessor and comparison family it is sorted by; (b) "
        "'extensive/intensive separation when adding solutions': in cxxSolution::add every scalar is either `+= addee.x * extensive` or "
        "`= f1*this.x + f2*addee.x` with f1 = w1/(w1+e*w2), f2 = e*w2/(w1+e*w2) (exact rational identities, locals inlined), the extensive set "
        "is exactly what cxxSolution::multiply scales, totals and isotopes go through their extensive helpers. NOT decided: unit conversion, "
        "density iteration, renumbering, repeated definitions, mixing order (they need the numerical results of two runs)."),
  note=NOTE_COMMON + "A partial claim labelled `other`: necessary conditions for two of the five invariances, nothing about the others."),
 "C16": dict(
  technique="model-number exhaustiveness over every switch on species::gflag + reader/writer agreement on the model parameter fields + exact rational-function comparison of the lg assignments with the defining equations",
  text=("Only the ion-association clause of C16 ('each species' log activity coefficient equals the model the database assigns to it') has parts "
        "visible in code shape, and only those are decided: (a) every model number assigned to species::gflag anywhere has a case in every switch "
        "over gflag (gammas, gammas_pz, gammas_sit); (b) every case of Phreeqc::gammas assigns species::lg on every path that does not end in a STOP "
        "error; (c) the parameter fields (dha, dhb) a model reads are fields stored by the code that selects that model (-gamma a b, -llnl_gamma a, "
        "the charged/uncharged defaults); (d) the right-hand side of the lg assignment of the closed-form models - uncharged b*I, Davies, "
        "extended/WATEQ Debye-Hueckel, LLNL B-dot, 'always 1', and the exchange-species variants coef*(same equation) + convention term - equals the "
        "defining equation as an exact rational function of (A, B, z, sqrt(I), a0, b, bdot) after I = sqrt(I)^2; algebraically equivalent rewrites "
        "compare equal (benign mutant kept), a changed coefficient, sign or operand does not. NOT decided: the values of A, B and I at which the "
        "equations are evaluated, exchange/surface conventions, and the whole Pitzer/SIT/Gibbs-Duhem/water-activity clause (numerical)."),
  note=NOTE_COMMON + "The reference equations are the textbook definitions named in the property (Davies with 0.3 I; Debye-Hueckel with ion-size and b "
       "terms; B-dot); the comparison is by polynomial identity (engine/ratfun.py), not by text. A partial claim labelled `other`."),
 "C19": dict(
  technique="exact rational-function comparison (opaque sqrt/log/exp over canonicalised arguments) of every closed-form assignment of both Phreeqc::calc_PR overloads with the Peng-Robinson definitions + a polynomial identity between the pressure equation and the cubic solved for the molar volume",
  text=("C19 as a whole is numerical and is NOT decided. Decided is the Peng-Robinson clause as far as it is written as closed-form code in the two "
        "overloads of Phreeqc::calc_PR: (a) a = 0.457235 (R Tc)^2/Pc, b = 0.077796 R Tc/Pc, kappa = 0.37464 + 1.54226 w - 0.26992 w^2, "
        "alpha = (1 + kappa (1 - sqrt(Tr)))^2, Tr = T/Tc at every site; (b) the one-fluid mixing rules b_sum, a_ij = sqrt(a_i alpha_i a_j alpha_j) "
        "times the binary parameter, a_aa_sum, a_aa_sum2, x_i = n_i/n_total; (c) every pressure evaluation is R T/(V-b) - a/(V(V+2b)-b^2) and the "
        "cubic whose root is taken as molar volume is identically that equation multiplied out (a polynomial identity between two pieces of code); "
        "(d) z, A, B, B_r, the ln(phi) formula, partial pressure = x_i P, phi = exp(ln phi), SI correction = ln phi/ln 10 and the clamp "
        "[ln 0.01, ln 85]. NOT decided: ideal-gas relations, the fixed-pressure existence rule, which root is selected in the two-phase region, "
        "fugacity = 10^SI, gases in EQUILIBRIUM_PHASES (all solver outcomes)."),
  note=NOTE_COMMON + "Literals are matched to the defining constants by value (2e-4 relative); comparison is by polynomial identity (engine/ratfun.py), so equivalent rewrites pass (benign mutant kept). Partial claim labelled `other`."),
 "C20": dict(
  technique="whole-program census of potential and charge-density conversions (each multiplicative term containing the Faraday constant classified by an exact rational independence test) + exact rational comparison of the charge-balance residuals with the Gouy-Chapman, constant-capacitance and CD-MUSIC relations",
  text=("C20 as a whole is numerical and is NOT decided. Decided is the closed-form part of its 'charge-potential relation' clause: (a) every "
        "conversion between the potential unknown (log activity of a psi master species) and volts, anywhere in the engine, is "
        "psi = 2 la ln10 R T/F (diffuse layer, constant capacitance) or psi = -la ln10 R T/F (CD-MUSIC planes), and where the code selects the model "
        "by surface type the form matches the type; (b) every conversion between equivalents of charge and C/m2 is q F/(A g) or its inverse; (c) the "
        "charge-balance residuals of Phreeqc::residuals are sqrt(8 eps eps0 R T 1e6) sqrt(I) sinh(la ln10) - q F/(A g) (Gouy-Chapman), "
        "C (2 la ln10 R T/F) - q F/(A g) (constant capacitance), sigma0 - C0 (psi0 - psi1) and (sigma0 + sigma1) - C1 (psi1 - psi2) (CD-MUSIC). "
        "NOT decided: site balance and mass action of every surface species, the diffuse-layer integration and ion excess, the numerical values "
        "reported."),
  note=NOTE_COMMON + "Physical constants (R, F in kJ/V/eq and C/mol, eps0) are recognised by value (2e-4 relative), ln 10 through the member LOG_10. Partial claim labelled `other`."),
 "C18": dict(
  technique="table agreement along the sign-constraint chain (input word -> enumerator -> constraint vector -> cl1 bound halves -> cl1 acceptance test -> model-file marks) + shape check of the three bit-mask inclusion predicates of the -minimal search",
  text=("C18 as a whole depends on the L1 solver's numerical output and is NOT decided. Decided are two clauses that rest on small pieces of code: "
        "(a) 'mixing fractions are non-negative, dissolve-only phases have non-negative and precipitate-only phases non-positive transfers': one sign "
        "convention runs from the input word (p.../d... -> PRECIPITATE/DISSOLVE, default EITHER, with signs -/+) through setup_inverse (negative "
        "constraint value for precipitate columns, positive for dissolve columns and for every initial-solution fraction) into cl1 (negative -> upper "
        "bound, positive -> lower bound in distinct halves of the bound array; final check rejects x > tol under a negative and x < -tol under a "
        "positive constraint) and the model-file marks; every link is checked to agree; (b) 'with -minimal no reported model strictly contains "
        "another': superset_minimal, subset_bad and subset_minimal compute (bits | S[i]) and compare it with the side their names imply. NOT decided: "
        "mole balance within the uncertainties, min..max ranges, which subsets the search visits (solver outcomes)."),
  note=NOTE_COMMON + "A partial claim labelled `other`: necessary conditions for two of the five admissibility clauses."),
}

NOT_APPLICABLE = {
}
PENDING = {}

def main():
    props = [json.loads(l) for l in open(os.path.join(HERE, "properties.jsonl"))]
    checks = []
    na = []
    for p in props:
        pid = p["id"]
        if pid in CLAIMS:
            c = CLAIMS[pid]
            checks.append({
                "property_id": pid,
                "quick_cmd": "bin/verif check %s --tier quick" % pid,
                "thorough_cmd": "bin/verif check %s --tier thorough" % pid,
                "evidence_file": "/verif/evidence/%s.json" % pid,
                "replay_cmd_template": "bin/verif explain {path}",
                "engine": "ipqfacts+rules",
                "level_claimed": {"category": c.get("category", "other"), "text": c["text"], "design_ref": "DESIGN.md §3 " + pid},
                "level_note": c["note"],
                "technique": c["technique"],
            })
        elif pid in NOT_APPLICABLE:
            na.append({"property_id": pid, "reason": NOT_APPLICABLE[pid]})
        else:
            na.append({"property_id": pid, "reason": PENDING.get(pid, "claimable clause identified in DESIGN.md §3 but its check is not built in this revision; not claimed")})
    m = {
        "version": 1,
        "setup_cmd": "./setup.sh",
        "hooks": {
            "guard": "IPHREEQC_VERIF",
            "enable": "none needed: the analysis reads the unmodified sources with the real build flags (no instrumentation is compiled in)",
            "baseline_off_cmd": "bin/baseline.sh",
            "source_commits": [],
            "add_only": True,
        },
        "engines": [{"name": "ipqfacts+rules", "path": "/verif/bin/verif",
                     "serves_properties": sorted(CLAIMS),
                     "kind_free_text": "custom static analyser: clang-14 libTooling fact extractor (resolved statement trees, records, globals) + python rule engine (CFG typestate/dominance, call graph, must-write analysis, table agreement)"}],
        "checks": checks,
        "not_applicable": na,
        "notes": "exit 0 = all rule instances hold (listed known findings printed as KNOWN-FINDING); exit 1 + VIOLATION line = unlisted violation; exit 2 + ANALYSIS-BROKEN = an anchor of a rule vanished or a rule would pass vacuously. fix: commits in /repo are recorded in known_findings.json under 'fixed'.",
    }
    json.dump(m, open(os.path.join(HERE, "MANIFEST.json"), "w"), indent=1)
    print("claimed:", [c["property_id"] for c in checks]); print("n/a:", [n["property_id"] for n in na])

if __name__ == "__main__":
    main()
