#!/usr/bin/env python3
"""Apply a patch to a scratch copy of the repository and run checks against it (the real /repo is never touched).

  mutest.py <patch.diff> <Cxx>[,<Cyy>...]          run the named checks on the patched copy, print verdict lines
  mutest.py --suite <dir> [--jobs N]                run every <dir>/**/<name>.patch with its <name>.expect.json
                                                    {"property": "C06", "expect": "violation"|"silent", "rule": "...", "instance_contains": "..."}
Exit 0 when every expectation is met.
"""
import json, os, shutil, subprocess, sys, tempfile
from concurrent.futures import ThreadPoolExecutor

HERE = os.path.dirname(os.path.dirname(os.path.abspath(__file__)))
REPO = os.environ.get("VERIF_REPO", "/repo")


def scratch_copy():
    d = tempfile.mkdtemp(prefix="ipq-mut-")
    dst = os.path.join(d, "repo")
    shutil.copytree(REPO, dst, ignore=shutil.ignore_patterns("_build", ".git", "build", "*.pdf", "*.docx"), symlinks=True)
    return d, dst


def run_patch(patch, props, keep=False):
    d, dst = scratch_copy()
    try:
        r = subprocess.run(["patch", "-p1", "-s", "-d", dst, "-i", os.path.abspath(patch)], stdout=subprocess.PIPE, stderr=subprocess.STDOUT, text=True)
        if r.returncode != 0:
            return {"error": "patch does not apply: " + r.stdout[-500:]}
        out = {}
        for p in props:
            env = dict(os.environ, VERIF_REPO=dst, VERIF_EVIDENCE=os.path.join(d, "evidence"))
            r = subprocess.run([os.path.join(HERE, "bin", "verif"), "check", p, "--tier", "quick"], env=env, stdout=subprocess.PIPE, stderr=subprocess.STDOUT, text=True)
            viol = [l.strip() for l in r.stdout.splitlines() if l.strip().startswith("violation:")]
            broken = [l.strip() for l in r.stdout.splitlines() if l.startswith("ANALYSIS-BROKEN")]
            out[p] = {"rc": r.returncode, "violations": viol, "broken": broken}
        return out
    finally:
        shutil.rmtree(d, ignore_errors=True)


def main(argv):
    if len(argv) >= 3 and argv[1] != "--suite":
        res = run_patch(argv[1], argv[2].split(","))
        print(json.dumps(res, indent=1))
        return 0
    if len(argv) >= 3 and argv[1] == "--suite":
        root = argv[2]
        jobs = int(argv[argv.index("--jobs") + 1]) if "--jobs" in argv else 4
        cases = []
        for dp, _, fns in os.walk(root):
            for fn in sorted(fns):
                if fn.endswith(".patch") or fn == "patch.diff":
                    base = os.path.join(dp, fn[:-6] if fn.endswith(".patch") else "meta")
                    exp = base + ".expect.json" if fn.endswith(".patch") else os.path.join(dp, "expect.json")
                    if os.path.exists(exp):
                        cases.append((os.path.join(dp, fn), json.load(open(exp))))
        bad = 0

        def one(c):
            patch, exp = c
            props = exp["property"] if isinstance(exp["property"], list) else [exp["property"]]
            return patch, exp, run_patch(patch, props)
        with ThreadPoolExecutor(max_workers=jobs) as ex:
            for patch, exp, res in ex.map(one, cases):
                ok = True
                why = ""
                if "error" in res:
                    ok, why = False, res["error"]
                else:
                    for p, r in res.items():
                        if exp["expect"] == "violation":
                            hit = [v for v in r["violations"] if exp.get("rule", "") in v and exp.get("instance_contains", "") in v]
                            if r["rc"] != 1 or not hit:
                                ok, why = False, "rc=%d violations=%s broken=%s" % (r["rc"], r["violations"][:3], r["broken"][:2])
                        else:
                            if r["rc"] != 0:
                                ok, why = False, "rc=%d violations=%s broken=%s" % (r["rc"], r["violations"][:3], r["broken"][:2])
                print("%s %s (%s %s)%s" % ("ok  " if ok else "FAIL", os.path.relpath(patch, root), exp["property"], exp["expect"], "" if ok else " — " + why))
                bad += 0 if ok else 1
        print("%d case(s), %d failed" % (len(cases), bad))
        return 1 if bad else 0
    print(__doc__)
    return 2


if __name__ == "__main__":
    sys.exit(main(sys.argv))
