#!/usr/bin/env python3
"""mk91.py: regenerate the rule table of DESIGN.md section 9.1 from /verif/evidence/C*.json (written by the quick tier).
Replaces the lines between the `| property | rules` header and the first blank line after it, and the rule-family count
in the paragraph that follows."""
import json, os, re
V = os.path.dirname(os.path.dirname(os.path.abspath(__file__)))
rows, total = [], 0
for i in range(1, 21):
    pid = "C%02d" % i
    e = json.load(open(os.path.join(V, "evidence", pid + ".json")))
    rules = e["coverage"]["rules"]
    total += len(rules)
    rows.append("| %s | %s |" % (pid, ", ".join("%s %d" % (k.split(".", 1)[1], v["instances"]) for k, v in sorted(rules.items()))))
p = os.path.join(V, "DESIGN.md")
s = open(p).read()
h = s.index("| property | rules (instances on today's tree) |")
e = s.index("\n\n", h)
s = s[:h] + "| property | rules (instances on today's tree) |\n|---|---|\n" + "\n".join(rows) + s[e:]
s = re.sub(r"\(\d+ rule families in all, regenerated from the quick-tier output after round \d+", "(%d rule families in all, regenerated from the quick-tier output after round 9" % total, s, count=1)
open(p, "w").write(s)
print(total, "rule families")
