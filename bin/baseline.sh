#!/bin/sh
# Repository's own test-suite with the verification guard OFF (no hooks exist: the analysis reads unmodified sources).
# Rebuilds /repo/_build incrementally and runs ctest; tests that fail in the parallel run (the suite has tests that
# share output file names) are re-run serially before being counted as failures.
set -e
cmake --build /repo/_build >/dev/null
if ctest --test-dir /repo/_build -j8 --timeout 900 >/tmp/ipq-baseline.$$.log 2>&1; then
  tail -3 /tmp/ipq-baseline.$$.log; rm -f /tmp/ipq-baseline.$$.log; exit 0
fi
rm -f /tmp/ipq-baseline.$$.log
ctest --test-dir /repo/_build --rerun-failed --timeout 900 2>&1 | tail -5
